#!/usr/bin/env python3
"""Regenerates MANIFEST.json from the table below (single source of truth for the interface)."""
import json, subprocess
repo_fix_commits = []
claimed = {
 "C01": ("translation_validation", "reference-semantics differential testing of compiler+VM (rapid program generator, own evaluator as oracle)",
         "Per-program validation of the compiled execution against an independent definitional evaluator of the source language: thousands of generated programs per run, each compared on host writes, trigger registrations and outcome. It never proves the compiler correct; it validates each sampled program.",
         "Trusted: the reference evaluator hs/eval.go (validated by three-way triangulation VM / interpreter / model), the generator's typing, the sandbox protocol. Open findings C01-007/C01-009 are excluded by construction (gates)."),
 "C02": ("exploration", "robustness fuzzing of accepted programs in a sandbox process (validity predicate: outcome well-formed, no crash, no hang)",
         "Generated hostile programs x limit configurations x both backends run in a worker process whose death or silence is the oracle; finds crashes and hangs, cannot show their absence.",
         "Trusted: the sandbox's crash/hang detection (timeouts are double-checked in an isolated worker). Open findings C02-005/006 gated."),
 "C04": ("translation_validation", "differential testing interpreter vs VM on generated programs",
         "Each generated program of the shared fragment is executed by both backends and the observable results are compared; sampled programs only.",
         "Trusted: the harness host implements the two executor interfaces identically. Open finding C04-003 gated."),
 "C06": ("exploration", "differential testing against a reference lexer: exhaustive short strings + generated lexeme sequences + native fuzzing",
         "Exhaustive over all strings of length <= 3 (quick) / 4 (thorough) over a 50-symbol lexical alphabet, random beyond; the oracle is an independent lexer written from grammar.ebnf.",
         "Trusted: verif/reflex (reference lexer) and its reading of grammar.ebnf; error spans are C08's subject and only counted here."),
 "C07": ("exploration", "differential testing against a table-driven reference parser (exhaustive operator pairs/triples) and metamorphic layout variants",
         "Exhaustive for all operator pairs and triples and prefix/binary/postfix combinations; random deep trees; layout metamorphic relation on shipped and generated programs.",
         "Trusted: the reference parser written from the property's operator table; the canonicaliser of the repository's parse tree."),
 "C09": ("exploration", "threshold/monotonicity/scaling oracle over limit scans and a leak-freedom table of loop bodies",
         "Scans limit values for parameterised program families and checks kind, monotonicity and that demand far above a limit is stopped; leak freedom by scaling iteration counts 10 -> 1000 -> 20000 under a fixed limit. 'Indefinitely' is approximated by three orders of magnitude.",
         "No model of the compile scheme is used; thresholds are measured, not predicted. Open findings C09-001/002 identified by body name."),
 "C10": ("exploration", "owned-schedule cancellation sweep (cancel at the k-th poll for every k)",
         "The harness context's Done() is the poll, so 'cancel at any moment' becomes an exhaustive sweep over k for small K and a stratified sample for large K; both backends; spawned cores included.",
         "Poll numbering starts after NewVM returns (NewVM documents a panic when initialisation fails). Multi-core programs have schedule-dependent poll interleavings."),
 "C11": ("exploration", "exhaustive small-scope enumeration of control-flow nestings against the reference semantics",
         "All nestings of 15 contexts to depth 3 (quick) / 4 (thorough) around 9 exits, with and without a tail throw, on both backends.",
         "Trusted: the reference evaluator for the statement forms used by the templates."),
 "C16": ("exploration", "model-based stateful testing of host invocation histories on one VM",
         "Generated program + generated call history; a reference evaluator with persistent globals predicts every call; residue is checked white-box after each completed call.",
         "Trusted: reference evaluator; residue fields are read through the exported Core/VM fields."),
 "C17": ("exploration", "schedule sampling under the Go race detector with output-multiset oracle",
         "Interleavings are sampled (GOMAXPROCS 1/2/4/16, yields, repetitions), not enumerated; a race needing a rare interleaving can be missed.",
         "Trusted: Go race detector; GORACE=halt_on_error. Open finding C17-001 gated (shared heap values)."),
}
claimed.update({
 "C03": ("exploration", "rule x context table of well-typed / single-fault ill-typed twins plus generated well-typed programs with recorded-type comparison",
         "Exhaustive over the hand-built rule x context table (51 statement rules x 15 contexts + 41 whole-program rules); the accept direction is additionally sampled with generated programs whose let-types are compared with the generator's typing.",
         "Trusted: the generator's typing as independent statement of the rules; each ill-typed twin is sound by construction (differs from an accepted twin at one site that violates the rule whatever surrounds it). Message texts are not compared."),
 "C12": ("exploration", "generated (value, type) pairs with near misses against own convertibility predicates, over API, JSON, in-program and host routes",
         "Near-miss table exhaustive for 20 types x 16 near-miss kinds; random pairs to depth 3/4; the in-program route uses typed uses of every leaf so a wrongly admitted value surfaces.",
         "Trusted: the oracle predicates written from the property text; conversions whose numeric result the property does not fix are only checked for admission (counted as doubts). Open finding C12-007 gated."),
 "C13": ("exploration", "algebraic laws on generated values (equality, clone under mutation histories, JSON round trip, display agreement) in both value libraries",
         "Random values to depth 3/4 with correlated pairs; stateful mutation histories for the copy law; exhaustive table of 416 near-equal pairs.",
         "Trusted: hs.Equal / hs.Display as structural model; NaN, infinities and -0.0 excluded as the property says. Open finding C13-007 identified by signature."),
 "C14": ("exploration", "metamorphic repetition: same sources analysed/compiled/run R times in one process and in a second process",
         "Map-order dependence is detected probabilistically; bound stated in the rule.",
         "Trusted: the worker re-runs the whole pipeline per repetition with fresh host objects."),
 "C18": ("exploration", "exhaustive type x member cross product read from the analyzer's tables, executed as one-line programs with boundary arguments on both backends",
         "Exhaustive over 21 type instantiations x all offered members x boundary argument tuples; reference results only where a member's meaning is unambiguous.",
         "Trusted: the small reference model of index and list/string members; undocumented member meanings are only checked for 'no crash' (counted as doubts). Open finding C18-013 gated."),
})
claimed.update({
 "C08": ("exploration", "validity predicates over all reported positions: damaged generated texts, single-fault culprit table, runtime-failure table on both backends",
         "Random damage of generated programs (as entry and as imported module) for syntax-error and diagnostic spans; exhaustive tables for 'points at the culprit' (20 rules x 8 contexts x entry/imported) and for runtime positions (7 failures x depth 0-3 x module x unicode prefix x backend).",
         "The position just behind the last rune is accepted for failures at end of input. Whether a runtime failure is catchable is not judged here."),
 "C15": ("exploration", "exhaustive small-scope enumeration of module graphs with a linking model as oracle",
         "All import-kind assignments over 14 graph shapes with <= 2 (quick) / 3 (thorough) library modules, with same-named private items in every module; diagnostics iff faulty/cyclic, behaviour of fault-free graphs against the reference semantics over 3 repetitions on both backends.",
         "Library modules carry an empty main like the repository's own multi-module scripts; whether a library needs a main is not judged."),
})
claimed.update({
 "C05": ("exploration", "totality fuzzing of lexer, parser and analyzer: random/hostile bytes, token soup, every prefix and every single-token edit of valid programs, depth generators, module variants; native go fuzzing in the thorough tier",
         "Validity predicate 'returns without panic, fatal error or hang' over generated texts up to 64 KiB and nesting up to 1000, offered as entry module and as the text a host returns for an imported module (10 module variants incl. cycles, host errors, import chains/diamonds). Exhaustive only for the prefixes and single-token edits of the corpus programs.",
         "Trusted: sandbox crash/hang detection (hangs are re-run alone with a doubled budget); in-process lexing/parsing runs under recover + watchdog. Analysis runs in the worker because a Go stack overflow cannot be recovered."),
 "C19": ("translation_validation", "round-trip and differential testing of both printers and the optimizer on generated programs, a table of printer-sensitive forms, generated literals, analysed trees built directly, and the shipped scripts",
         "Each accepted program is printed (parser AST and analysed AST), re-parsed, re-analysed and re-run on both backends; output, outcome, trigger registrations and compiled annotations must be identical and the second print must equal the first; the optimizer's output is run against the unoptimised program. Sampled programs only.",
         "Trusted: the sandbox worker's print/optimise operations call the repository's String() methods and optimizer directly. Programs whose original crashes the VM are judged on the interpreter alone (C02's subject)."),
 "C20": ("translation_validation", "metamorphic testing of the transformer: generated programs of the property's class and the shipped examples x seeds x passes; every variant must be accepted and behave like the original on the VM",
         "Per (program, seed, passes): every variant TransformPasses returns is printed, analysed and run; acceptance, output, outcome, trigger registrations and compiled annotations are compared with the original. Sampled triples only.",
         "Trusted: generator restrictions implementing the property's side conditions (pure operands, small non-negative multiplication operands, small literals). Programs whose untransformed analysed print does not round-trip (C19) are discarded and counted."),
})
pending = {}
import os
def main():
    props=[json.loads(l) for l in open('/verif/properties.jsonl')]
    checks=[]; na=[]
    for p in props:
        i=p["id"]
        if i in claimed and os.path.isdir('/verif/props/'+i.lower()):
            cat,tech,text,note=claimed[i]
            checks.append({"property_id":i,"quick_cmd":"./check %s --tier quick"%i,"thorough_cmd":"./check %s --tier thorough"%i,
              "evidence_file":"/verif/evidence/%s.json"%i,"replay_cmd_template":"./check %s --replay {path}"%i,"engine":"pbt-driver",
              "level_claimed":{"category":cat,"text":text,"design_ref":"DESIGN.md section 5, "+i},"level_note":note,"technique":tech})
        else:
            na.append({"property_id":i,"reason":pending.get(i,"check not built yet in this session (planned in DESIGN.md section 5); not claimed until its check runs")})
    commits=subprocess.run(["git","-C","/repo","log","--format=%h %s","bf25707..HEAD"],capture_output=True,text=True).stdout.strip().split("\n")
    m={"version":1,
       "setup_cmd":"cd /verif && export GOFLAGS=-mod=mod GOPROXY=off GOSUMDB=off GOTOOLCHAIN=local && ([ -f go.sum ] || cp /repo/go.sum go.sum) && mkdir -p bin && go build -o bin/driver ./cmd/driver && go build -o bin/worker ./cmd/worker && go vet ./pk/ ./sb/ ./hs/ >/dev/null",
       "hooks":{"guard":"verif","enable":"no hooks are needed: every observable is reachable through exported API; checks build /repo's working tree through the go.mod replace directive","baseline_off_cmd":"cd /repo && go test -vet=off -count=1 ./...","source_commits":[],"add_only":True},
       "engines":[{"name":"pbt-driver","path":"/verif/check","serves_properties":[c["property_id"] for c in checks],"kind_free_text":"Go: rapid v1.3.0 generators + exhaustive small-scope tables + native go fuzzing, sandbox worker process, reference models (hs, reflex)"}],
       "checks":checks,
       "not_applicable":na,
       "notes":"Repairs of genuine defects are unguarded 'fix:' commits in /repo (listed in known_findings.json with their replay files): "+"; ".join(c for c in commits if " fix:" in c)}
    json.dump(m,open('/verif/MANIFEST.json','w'),indent=1)
main()
