#!/bin/bash
# tools/soak.sh <tier> "<seeds>" [ids...] — run checks at several seeds; print one line per run
cd "$(dirname "$(readlink -f "$0")")/.." || exit 2
tier=$1; seeds=$2; shift 2
# inside `vp run --with-repo` build against the repository snapshot, so that edits to /repo do not disturb the run
if [ -n "$VP_RUN_REPO" ] && [ -d "$VP_RUN_REPO" ]; then sed -i "s#=> /repo#=> $VP_RUN_REPO#" go.mod; fi
ids="$@"
[ -z "$ids" ] && ids=$(python3 -c "import json;print(' '.join(c['property_id'] for c in json.load(open('MANIFEST.json'))['checks']))")
for s in $seeds; do for id in $ids; do
  out=$(VERIF_SEED=$s ./check $id --tier $tier 2>&1); rc=$?
  echo "seed=$s $id rc=$rc $(echo "$out" | grep -c '^VIOLATION') violations; $(echo "$out" | grep 'tier=' | tail -1)"
  [ $rc -ne 0 ] && echo "$out" | grep -v "^KNOWN-FINDING" | tail -5 | cut -c1-300
done; done
