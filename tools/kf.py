#!/usr/bin/env python3
"""tools/kf.py add <ID> <PROP> <open|fixed> <sub> <sig> <replay> <gate> <commit> <what...>  — append/update a finding"""
import json,sys
p='/verif/known_findings.json'
d=json.load(open(p))
cmd=sys.argv[1]
if cmd=='add':
    id_,prop,status,sub,sig,replay,gate,commit=sys.argv[2:10]
    what=' '.join(sys.argv[10:])
    e={"id":id_,"property":prop,"status":status,"what":what,"replay":replay,"sub_check":sub,"signature":sig}
    if gate!='-': e["gate"]=gate
    if commit!='-':
        e["commit"]=commit
        e["record"]="fixed: property=%s %s %s"%(prop,commit,what)
    d["findings"]=[f for f in d["findings"] if f["id"]!=id_]+[e]
    d["findings"].sort(key=lambda f:f["id"])
json.dump(d,open(p,'w'),indent=1)
