#!/usr/bin/env python3
import json,sys
pid=sys.argv[1]; n=sys.argv[2] if len(sys.argv)>2 else "a"
p=[json.loads(l) for l in open('/verif/properties.jsonl') if json.loads(l)["id"]==pid][0]
wt="/tmp/mut-%s%s"%(pid,n)
print(f'''You are given a Go repository (smarthome-go/homescript: a statically typed Rust-like DSL with lexer, parser, type analyzer, bytecode compiler, stack VM and tree-walking interpreter) as a scratch git worktree at {wt}. Work ONLY inside {wt} (never touch /repo or /verif; do not read /verif). Every shell call needs: export GOFLAGS=-mod=mod GOPROXY=off GOSUMDB=off GOTOOLCHAIN=local  (no network; Go 1.23).

The project is supposed to satisfy this property:

TITLE: {p["title"]}
STATEMENT: {p["statement"]}
QUANTIFIED OVER: {p["quantifier"]["text"]}
RELEVANT FILES: {", ".join(p["anchors"]["files"])}

Your task: produce ONE realistic change to the repository's non-test Go source that BREAKS this property while the code still compiles and the existing test suite still passes unchanged (`cd {wt} && go build ./... && go test -vet=off -count=1 ./...` must be green). The change must be subtle: it must need something specific to manifest — a particular interleaving, a fault or cancellation at a particular point, a multi-step sequence of operations, an unusual input or boundary value, a particular nesting, or two cooperating sites that each look fine alone — NOT something that ordinary use (e.g. any hello-world program, the example scripts in examples/ or tests/) would expose at once. Think of a plausible regression a maintainer could introduce by refactoring or "optimising". Variant letter for diversity: "{n}" — if it is not "a", pick a different area of the relevant files / a different mechanism than the most obvious one.

Deliver, inside {wt}:
1. `patch.diff`: `git diff` of your change (source files only; do not include the files listed here).
2. A demonstration that FAILS with the change and PASSES without it: either a Go test file `demo_test.go` placed in a suitable package directory (name the file exactly demo_test.go; it may use only the repository's own packages and the standard library; look at {wt}/homescript/homescript_test.go, testing_run.go, testing_executor*.go for how programs are analysed, compiled and run) or a small `demo/main.go` program that exits non-zero when the property is violated. State the exact command to run it.
3. `meta.txt`: which clause of the property it breaks, what exactly is needed for it to manifest, and why the existing tests do not notice.
Verify yourself: (i) with the patch: build ok, existing suite green, demonstration FAILS; (ii) `git stash` (patch removed): demonstration PASSES; then re-apply the patch (leave the worktree with the patch applied and patch.diff, demo, meta.txt present). Keep the change small (typically < 15 changed lines). Do not weaken or edit existing tests. Final answer: the three file paths, the demo command, and a 5-line summary.''')
