#!/usr/bin/env python3
"""tools/seedprompt.py <PROP> <letter> — print the instruction for a fresh sub-agent that seeds a property-breaking change.
The agent gets the property text, a scratch worktree /tmp/seed/<PROP><letter> and an output directory; nothing from /verif.
Earlier seeded changes for the same property are named (one line each) so that the new one uses another mechanism."""
import json,sys,re
pid,n=sys.argv[1],sys.argv[2]
p=[json.loads(l) for l in open('/verif/properties.jsonl') if json.loads(l)["id"]==pid][0]
wt="/tmp/seed/%s%s"%(pid,n); out=wt+"-out"
prior=[]
for line in open('/verif/DESIGN.md'):
    m=re.match(r'\| (C\d\d[a-z])(?: / (C\d\d[a-z]))? \| ([^|]+) \| ([^|]+) \|',line)
    if m and (m.group(1)[:3]==pid or (m.group(2) or '')[:3]==pid):
        prior.append("- %s (needs: %s)"%(m.group(3).strip(),m.group(4).strip()))
priortext=""
if prior:
    priortext="\nOther engineers have already seeded these changes for this property; choose a DIFFERENT mechanism in a different region of the code (another file or another function), and do not produce a variation of one of them:\n"+"\n".join(prior)+"\n"
print(f'''You are given a Go repository (smarthome-go/homescript: a statically typed Rust-like DSL with lexer, parser, type analyzer, bytecode compiler, stack VM and tree-walking interpreter) as a scratch git worktree at {wt}. Work ONLY inside {wt} and {out} (never touch /repo or /verif; do not read anything under /verif). Every shell call needs: export GOFLAGS=-mod=mod GOPROXY=off GOSUMDB=off GOTOOLCHAIN=local  (no network; Go 1.23). Do NOT use `git stash` (the stash is shared between worktrees); to test without your change use `git diff > {out}/patch.diff && git apply -R {out}/patch.diff` and re-apply with `git apply {out}/patch.diff`.

The project is supposed to satisfy this property:

TITLE: {p["title"]}
STATEMENT: {p["statement"]}
QUANTIFIED OVER: {p["quantifier"]["text"]}
RELEVANT FILES: {", ".join(p["anchors"]["files"])}

Your task: produce ONE realistic change to the repository's non-test Go source that BREAKS this property while the code still compiles and the existing test suite still passes unchanged (`cd {wt} && go build ./... && go test -vet=off -count=1 ./...` must be green). The change must be subtle: it must need something specific to manifest - a particular interleaving, a fault or cancellation at a particular point, a multi-step sequence of operations, an unusual input or boundary value, a particular nesting, or two cooperating sites that each look fine alone - NOT something that ordinary use (any hello-world program, the example scripts in examples/ or tests/) would expose at once. Think of a plausible regression a maintainer could introduce by refactoring, "optimising" or "cleaning up". It must break the property as stated (a behaviour the statement promises), not merely change an error message or a performance characteristic.
{priortext}
Deliver, in {out}:
1. `patch.diff`: `git diff` of your change (non-test source files only).
2. A demonstration that FAILS with the change and PASSES without it: a Go test file (name it demo_{pid.lower()}{n}_test.go; it may use only the repository's own packages and the standard library; look at {wt}/homescript/homescript_test.go, testing_run.go, testing_executor*.go for how programs are analysed, compiled and run), placed in a suitable package directory of the worktree AND copied to {out}. State the exact directory it must be placed in and the exact command to run it.
3. `notes.md`: which clause of the property it breaks, what exactly is needed for it to manifest, and why ordinary use and the existing tests do not notice. If you notice behaviour of the UNCHANGED code that itself looks like a violation of the property, add it under a heading "Side notes" (do not build on it).
Verify yourself: (i) with the patch: build ok, existing suite green (with your demonstration file moved aside), demonstration FAILS; (ii) without the patch: demonstration PASSES. Leave the worktree with the patch applied. Keep the change small (typically < 20 changed lines). Do not weaken or edit existing tests. Final answer: the file paths, the directory the demo belongs in, the demo command, and a 5-line summary.''')
