#!/bin/bash
# tools/verify_seed.sh <worktree> <outdir> <demo-file-rel-path-in-worktree> "<demo command>"
# Confirms a seeded change: builds, existing suite green with the patch (demo moved aside), demo fails with the
# patch and passes without it. Prints VERIFIED or the step that failed.
export GOFLAGS=-mod=mod GOPROXY=off GOSUMDB=off GOTOOLCHAIN=local
wt=$1; out=$2; demo=$3; cmd=$4
cd "$wt" || exit 2
git checkout -q -- . 2>/dev/null
[ -f "$wt/$demo" ] || cp "$out/$(basename $demo)" "$wt/$demo" || { echo "NO-DEMO"; exit 1; }
mv "$wt/$demo" /tmp/verify_seed_demo.go
git apply "$out/patch.diff" || { echo "PATCH-DOES-NOT-APPLY"; exit 1; }
go build ./... || { echo "BUILD-FAILS"; exit 1; }
t=$(go test -vet=off -count=1 ./... 2>&1); echo "$t" | grep -q "^FAIL\|^---\? FAIL" && { echo "SUITE-FAILS-WITH-PATCH"; echo "$t" | tail -5; exit 1; }
cp /tmp/verify_seed_demo.go "$wt/$demo"
if (eval "$cmd") >/tmp/verify_seed_with.log 2>&1; then echo "DEMO-PASSES-WITH-PATCH"; exit 1; fi
git apply -R "$out/patch.diff" || { echo "CANNOT-REVERT"; exit 1; }
if ! (eval "$cmd") >/tmp/verify_seed_without.log 2>&1; then echo "DEMO-FAILS-WITHOUT-PATCH"; tail -5 /tmp/verify_seed_without.log; exit 1; fi
git status --short | grep -v "^??" | head -3
echo VERIFIED
