#!/bin/bash
# tools/coverage_all.sh [tier] — union coverage of the repository under all checks (measurement only)
cd "$(dirname "$(readlink -f "$0")")/.." || exit 2
tier=${1:-quick}
for id in C01 C02 C03 C04 C05 C06 C07 C08 C09 C10 C11 C12 C13 C14 C15 C16 C17 C18 C19 C20; do
  tools/coverage.sh $id $tier >/dev/null 2>&1
done
cat /tmp/cov/c*.txt > /tmp/cov/all.txt
echo "union written to /tmp/cov/all.txt"
