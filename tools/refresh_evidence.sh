#!/bin/bash
# tools/refresh_evidence.sh [tier] [ids...] — run the checks on the (clean) tree so that evidence/ describes it
cd "$(dirname "$(readlink -f "$0")")/.." || exit 2
[ -n "$(git -C /repo status --porcelain)" ] && { echo "REFUSING: /repo has uncommitted changes"; exit 2; }
tier=${1:-quick}; shift
ids="$@"
[ -z "$ids" ] && ids=$(python3 -c "import json;print(' '.join(c['property_id'] for c in json.load(open('MANIFEST.json'))['checks']))")
for id in $ids; do
  out=$(./check $id --tier $tier 2>&1); rc=$?
  echo "$id rc=$rc $(echo "$out" | grep -c '^VIOLATION') viol; $(echo "$out" | grep 'tier=' | tail -1)"
  [ $rc -ne 0 ] && echo "$out" | grep -v "^KNOWN-FINDING" | tail -6 | cut -c1-300
done
true
