#!/usr/bin/env python3
import json,sys
d=json.load(open(sys.argv[1]))
print("sub:",d["Sub"],"sig:",d["Sig"])
c=d["Case"]
for n,t in (c.get("Modules") or {}).items():
    print("// ---- module",n); print(t)
for k in c:
    if k not in("Modules",): print(k,"=",json.dumps(c[k])[:600])
print("MSG:", d["Msg"][:1500])
