#!/bin/bash
# tools/coverage.sh <ID> [tier] — measurement only: which statements of the repository does a check execute?
# Builds worker and test binary with -cover, runs the check, prints per-package percentages and writes
# /tmp/cov/<id>.txt (go cover profile) for `go tool cover -func` / uncovered-line inspection.
export GOFLAGS=-mod=mod GOPROXY=off GOSUMDB=off GOTOOLCHAIN=local
cd "$(dirname "$(readlink -f "$0")")/.." || exit 2
id=$1; tier=${2:-quick}; d=/tmp/cov/$(echo $id | tr A-Z a-z)
rm -rf $d; mkdir -p $d
cp evidence/$id.json /tmp/cov/evidence-$id.json.bak 2>/dev/null
VERIF_COVER=$d ./check $id --tier $tier 2>&1 | tail -1
cp /tmp/cov/evidence-$id.json.bak evidence/$id.json 2>/dev/null   # the measurement run is not evidence
go tool covdata percent -i=$d 2>/dev/null | grep smarthome
go tool covdata textfmt -i=$d -o=$d.txt 2>/dev/null
