#!/usr/bin/env python3
"""tools/storeseed.py <ID> <PROP> <outdir> <demo-rel-path> <demo-cmd> <checks_run...> — store a verified seeded change under /verif/seeded/<ID>/"""
import sys,os,json,shutil
id_,prop,out,demo,cmd=sys.argv[1:6]; checks=' '.join(sys.argv[6:])
d='/verif/seeded/'+id_; os.makedirs(d,exist_ok=True)
shutil.copy(out+'/patch.diff',d+'/patch.diff')
shutil.copy(out+'/'+os.path.basename(demo),d+'/'+os.path.basename(demo))
notes=open(out+'/notes.md').read() if os.path.exists(out+'/notes.md') else ''
open(d+'/notes.md','w').write(notes)
meta={"id":id_,"breaks_property":prop,"origin":"written by a fresh sub-agent that saw only the property text and a scratch worktree of /repo",
 "needs_to_manifest":notes[:2500],
 "demonstration":{"file":os.path.basename(demo),"placed_at":demo,"command":cmd},
 "verified_by_me":["tools/verify_seed.sh: with the patch go build ./... ok and the existing suite is green (demonstration moved aside); the demonstration fails with the patch","without the patch the demonstration passes"],
 "checks_run":checks}
json.dump(meta,open(d+'/meta.json','w'),indent=1)
print('stored',d)
