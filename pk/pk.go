// Package pk is the property kit shared by all checks: statistics for evidence, failure
// reporting with replay files, known-finding attribution, replay dispatch, tier/shard helpers.
package pk

import (
	"crypto/sha1"
	"encoding/hex"
	"encoding/json"
	"fmt"
	"os"
	"path/filepath"
	"regexp"
	"sort"
	"strconv"
	"strings"
	"sync"
	"testing"
)

// ---------------------------------------------------------------------------------------------
// environment

func Tier() string {
	if t := os.Getenv("VERIF_TIER"); t != "" {
		return t
	}
	return "quick"
}
func Thorough() bool { return Tier() == "thorough" }

// Scale picks a size by tier.
func Scale(quick, thorough int) int {
	if Thorough() {
		return thorough
	}
	return quick
}

// Shard returns (index, count) of this process among its siblings.
func Shard() (int, int) {
	s := os.Getenv("VERIF_SHARD")
	if s == "" {
		return 0, 1
	}
	parts := strings.Split(s, "/")
	i, _ := strconv.Atoi(parts[0])
	n, _ := strconv.Atoi(parts[1])
	if n < 1 {
		n = 1
	}
	return i, n
}

// Mine reports whether enumeration item k belongs to this shard.
func Mine(k int) bool {
	i, n := Shard()
	return k%n == i
}

func Seed() int64 {
	s, _ := strconv.ParseInt(os.Getenv("VERIF_SEED"), 10, 64)
	return s
}

func OutDir() string {
	d := os.Getenv("VERIF_OUT")
	if d == "" {
		d = filepath.Join(os.TempDir(), "verif-out")
	}
	os.MkdirAll(d, 0o755)
	return d
}

func Prop() string { return os.Getenv("VERIF_PROP") }

// ---------------------------------------------------------------------------------------------
// statistics

type Stats struct {
	Evaluations  int
	NonTrivial   map[string]bool
	Classes      map[string]int
	Discards     map[string]int
	Gates        map[string]int
	KnownHits    map[string]int
	Inconclusive int
	Samples      []json.RawMessage
	Extra        map[string]int
	Exhaustive   map[string]bool
	Failures     []FailRec
}

type FailRec struct {
	Sub, Sig, Msg, Replay string
}

var (
	mu sync.Mutex
	st = newStats()
)

func newStats() *Stats {
	return &Stats{NonTrivial: map[string]bool{}, Classes: map[string]int{}, Discards: map[string]int{}, Gates: map[string]int{},
		KnownHits: map[string]int{}, Extra: map[string]int{}, Exhaustive: map[string]bool{}}
}

func Eval() { mu.Lock(); st.Evaluations++; mu.Unlock() }
func EvalN(n int) {
	mu.Lock()
	st.Evaluations += n
	mu.Unlock()
}
func Class(name string)   { mu.Lock(); st.Classes[name]++; mu.Unlock() }
func Discard(why string)  { mu.Lock(); st.Discards[why]++; mu.Unlock() }
func Gate(name string)    { mu.Lock(); st.Gates[name]++; mu.Unlock() }
func Inconclusive()       { mu.Lock(); st.Inconclusive++; mu.Unlock() }
func Extra(k string, n int) { mu.Lock(); st.Extra[k] += n; mu.Unlock() }
func Exhaustive(sub string) { mu.Lock(); st.Exhaustive[sub] = true; mu.Unlock() }

func hashOf(s string) string {
	h := sha1.Sum([]byte(s))
	return hex.EncodeToString(h[:8])
}

// NonTrivial records a non-trivial case by content; the first few distinct ones become samples.
func NonTrivial(content string, sample any) {
	h := hashOf(content)
	mu.Lock()
	defer mu.Unlock()
	if st.NonTrivial[h] {
		return
	}
	st.NonTrivial[h] = true
	n := len(st.NonTrivial)
	if n <= 3 || (n < 2000 && n%400 == 0) {
		if b, err := json.Marshal(sample); err == nil && len(b) < 6000 && len(st.Samples) < 8 {
			st.Samples = append(st.Samples, b)
		}
	}
}

// Flush writes the statistics where the driver expects them.
func Flush() {
	path := os.Getenv("VERIF_STATS")
	if path == "" {
		return
	}
	mu.Lock()
	defer mu.Unlock()
	b, _ := json.Marshal(st)
	os.WriteFile(path, b, 0o644)
}

// Main wraps testing.M so statistics are always flushed.
func Main(m *testing.M) {
	loadKnown()
	code := m.Run()
	Flush()
	os.Exit(code)
}

// ---------------------------------------------------------------------------------------------
// failures, replay files, known findings

type Failure struct {
	Sub string // sub-check name (dispatch key for replay)
	Sig string // root-cause signature (crash class @ frame, or oracle-diff class)
	Msg string // human readable
}

func Failf(sub, sig, format string, a ...any) *Failure {
	return &Failure{Sub: sub, Sig: sig, Msg: fmt.Sprintf(format, a...)}
}

type ReplayFile struct {
	Property string
	Sub      string
	Sig      string
	Msg      string
	Case     json.RawMessage
}

type Known struct {
	ID       string `json:"id"`
	Property string `json:"property"`
	Status   string `json:"status"` // open | fixed
	What     string `json:"what"`
	Replay   string `json:"replay"`
	Sub      string `json:"sub_check"`
	Sig      string `json:"signature"` // exact, or /regexp/
	Gate     string `json:"gate,omitempty"`
	Commit   string `json:"commit,omitempty"`
	// Requires narrows a broad signature (a crash class): the failure's message - it quotes the failing program -
	// must match this regular expression as well, otherwise the failure is NOT this finding and is reported.
	Requires string `json:"requires,omitempty"`
}

var known []Known

func KnownPath() string {
	if p := os.Getenv("VERIF_KNOWN"); p != "" {
		return p
	}
	return "/verif/known_findings.json"
}

func loadKnown() {
	b, err := os.ReadFile(KnownPath())
	if err != nil {
		return
	}
	var all struct {
		Findings []Known `json:"findings"`
	}
	if json.Unmarshal(b, &all) == nil {
		known = all.Findings
	}
}

func LoadKnownFile() []Known { loadKnown(); return known }

func sigMatches(pat, sig string) bool {
	if strings.HasPrefix(pat, "/") && strings.HasSuffix(pat, "/") && len(pat) > 2 {
		re, err := regexp.Compile(pat[1 : len(pat)-1])
		return err == nil && re.MatchString(sig)
	}
	return pat == sig
}

// MatchKnown returns the id of the open finding this failure belongs to, or "".
func MatchKnown(prop string, f *Failure) string {
	for _, k := range known {
		if k.Status == "open" && k.Property == prop && k.Sig != "" && sigMatches(k.Sig, f.Sig) && (k.Sub == "" || k.Sub == f.Sub) {
			if k.Requires != "" {
				if re, err := regexp.Compile(k.Requires); err != nil || !re.MatchString(f.Msg) {
					continue
				}
			}
			return k.ID
		}
	}
	return ""
}

// GateOpen reports whether an open finding keeps the named generator gate closed.
func GateOpen(gate string) bool {
	if os.Getenv("VERIF_NOGATES") == "1" {
		return false
	}
	for _, k := range known {
		if k.Status == "open" && k.Gate == gate {
			return true
		}
		if k.Status == "open" {
			for _, g := range strings.Split(k.Gate, ",") {
				if strings.TrimSpace(g) == gate {
					return true
				}
			}
		}
	}
	return false
}

type TB interface {
	Fatalf(format string, args ...any)
	Logf(format string, args ...any)
}

func writeReplay(prop string, f *Failure, c any, name string) string {
	cb, _ := json.Marshal(c)
	rf := ReplayFile{Property: prop, Sub: f.Sub, Sig: f.Sig, Msg: f.Msg, Case: cb}
	b, _ := json.MarshalIndent(rf, "", " ")
	path := filepath.Join(OutDir(), name)
	os.WriteFile(path, b, 0o644)
	return path
}

// Judge is called with the result of a check inside a rapid property (or any test). A nil
// failure passes. A failure attributed to an open known finding is counted and passes (the
// search continues behind it). Anything else writes a replay file and fails the test; under
// rapid the last write is the shrunk case.
func Judge(t TB, c any, f *Failure) {
	if f == nil {
		return
	}
	prop := Prop()
	if id := MatchKnown(prop, f); id != "" {
		mu.Lock()
		st.KnownHits[id]++
		mu.Unlock()
		return
	}
	i, _ := Shard()
	name := fmt.Sprintf("fail-%s-%s-shard%d.json", strings.ToLower(prop), sanitize(f.Sub), i)
	path := writeReplay(prop, f, c, name)
	mu.Lock()
	// keep only the latest record per sub (shrinking rewrites it)
	found := false
	for k := range st.Failures {
		if st.Failures[k].Sub == f.Sub {
			st.Failures[k] = FailRec{f.Sub, f.Sig, f.Msg, path}
			found = true
		}
	}
	if !found {
		st.Failures = append(st.Failures, FailRec{f.Sub, f.Sig, f.Msg, path})
	}
	mu.Unlock()
	Flush()
	t.Fatalf("VERIF-FAIL sub=%s sig=%q replay=%s\n%s", f.Sub, f.Sig, path, f.Msg)
}

// Collector gathers failures of an enumeration (table tier) without stopping at the first;
// distinct signatures are reported once each.
type Collector struct {
	mu   sync.Mutex
	seen map[string]bool
	n    int
}

func NewCollector() *Collector { return &Collector{seen: map[string]bool{}} }

func (c *Collector) Report(cs any, f *Failure) {
	if f == nil {
		return
	}
	prop := Prop()
	if id := MatchKnown(prop, f); id != "" {
		mu.Lock()
		st.KnownHits[id]++
		mu.Unlock()
		return
	}
	c.mu.Lock()
	defer c.mu.Unlock()
	key := f.Sub + "|" + f.Sig
	if c.seen[key] {
		return
	}
	c.seen[key] = true
	c.n++
	i, _ := Shard()
	name := fmt.Sprintf("fail-%s-%s-%s-shard%d.json", strings.ToLower(prop), sanitize(f.Sub), hashOf(f.Sig), i)
	path := writeReplay(prop, f, cs, name)
	mu.Lock()
	st.Failures = append(st.Failures, FailRec{f.Sub, f.Sig, f.Msg, path})
	mu.Unlock()
}

func (c *Collector) Done(t *testing.T) {
	c.mu.Lock()
	n := c.n
	c.mu.Unlock()
	if n > 0 {
		Flush()
		mu.Lock()
		var lines []string
		for _, f := range st.Failures {
			lines = append(lines, fmt.Sprintf("VERIF-FAIL sub=%s sig=%q replay=%s\n%s", f.Sub, f.Sig, f.Replay, f.Msg))
		}
		mu.Unlock()
		t.Fatalf("%d distinct failures\n%s", n, strings.Join(lines, "\n"))
	}
}

func sanitize(s string) string {
	return regexp.MustCompile(`[^A-Za-z0-9_.-]+`).ReplaceAllString(s, "_")
}

// ---------------------------------------------------------------------------------------------
// replay dispatch

var registry = map[string]func(json.RawMessage) *Failure{}

func Register(sub string, fn func(json.RawMessage) *Failure) { registry[sub] = fn }

// Reg registers a typed check function for replay.
func Reg[C any](sub string, check func(C) *Failure) {
	registry[sub] = func(raw json.RawMessage) *Failure {
		var c C
		if err := json.Unmarshal(raw, &c); err != nil {
			return &Failure{Sub: sub, Sig: "replay-decode", Msg: err.Error()}
		}
		return check(c)
	}
}

// ReplayResult is printed as one line by TestReplay: "VERIF-REPLAY <status> sig=<sig>".
func RunReplay(path string) (status string, f *Failure, err error) {
	b, err := os.ReadFile(path)
	if err != nil {
		return "", nil, err
	}
	var rf ReplayFile
	if err := json.Unmarshal(b, &rf); err != nil {
		return "", nil, err
	}
	fn := registry[rf.Sub]
	if fn == nil {
		// prefix match: "sub:variant"
		for k, v := range registry {
			if strings.HasPrefix(rf.Sub, k+":") {
				fn = v
			}
		}
	}
	if fn == nil {
		return "", nil, fmt.Errorf("no replay handler for sub-check %q (have %v)", rf.Sub, keys(registry))
	}
	f = fn(rf.Case)
	if f == nil {
		return "pass", nil, nil
	}
	return "fail", f, nil
}

func keys(m map[string]func(json.RawMessage) *Failure) []string {
	var ks []string
	for k := range m {
		ks = append(ks, k)
	}
	sort.Strings(ks)
	return ks
}

// ReplayTest is the body of every package's TestReplay.
func ReplayTest(t *testing.T) {
	paths := os.Getenv("VERIF_REPLAY")
	if paths == "" {
		t.Skip("no VERIF_REPLAY")
	}
	for _, path := range strings.Split(paths, ",") {
		status, f, err := RunReplay(path)
		if err != nil {
			fmt.Printf("VERIF-REPLAY error file=%s err=%v\n", path, err)
			t.Errorf("replay %s: %v", path, err)
			continue
		}
		if f != nil {
			fmt.Printf("VERIF-REPLAY %s file=%s sub=%s sig=%q\n", status, path, f.Sub, f.Sig)
			fmt.Printf("  %s\n", strings.ReplaceAll(f.Msg, "\n", "\n  "))
		} else {
			fmt.Printf("VERIF-REPLAY %s file=%s\n", status, path)
		}
	}
}

// SkipIfReplay makes ordinary tests inert during replay runs.
func SkipIfReplay(t *testing.T) {
	if os.Getenv("VERIF_REPLAY") != "" {
		t.Skip("replay run")
	}
}
