// Package reflex is an independent reference lexer for Homescript, written from the "Tokens"
// section of grammar.ebnf and the statement of property C06. It does not import the repository.
//
// Lexical rules implemented here (interpretations of the grammar are marked [I]):
//
//   - blank: space, TAB, CR, LF; '//' up to and including the next LF (or the end of text [I]);
//     '/*' up to the next '*/' (the shortest comment is '/**/'; no nesting).
//   - operators and punctuation: matched longest-first from the table below.
//   - names: LETTER {LETTER|DIGIT} with LETTER = A-Z a-z '_'; a name equal to a keyword is that
//     keyword, 'true'/'on' are True, 'false'/'off' are False, '_' alone is Underscore.
//   - numbers: DIGIT {DIGIT|'_'} ['f' | '.' DIGIT {DIGIT|'_'}]; the value is the text without '_'
//     and without the 'f' suffix; a '.' not followed by a digit does not belong to the number.
//   - strings: either quote kind, any character (including LF) except the quote and '\', escapes
//     \\ \' \" \b \n \r \t, \OOO (3 octal digits), \xHH, \uHHHH, \UHHHHHHHH; the value of a numeric
//     escape is the code point with that number [I]. Code points above U+10FFFF and surrogates
//     have no defined value: the token is marked Doubt.
//   - anything else has no token: an error.
//
// Positions: Index counts runes from 0, Line and Column start at 1, a LF ends its line (the LF
// itself is the last column of the line), CR is an ordinary column. Spans are inclusive.
package reflex

type Loc struct{ Line, Column, Index uint }

type Span struct {
	Start, End Loc
	Filename   string
}

type Tok struct {
	Kind  string
	Value string
	Span  Span
	Raw   string // the lexeme
	Doubt bool   // the grammar does not define the value (escape outside the Unicode range)
}

// Error kinds.
const (
	ErrIllegalChar         = "illegal-char"
	ErrLoneTilde           = "lone-tilde"
	ErrUnterminatedString  = "unterminated-string"
	ErrUnfinishedEscape    = "unfinished-escape"
	ErrBadEscape           = "bad-escape"
	ErrUnterminatedComment = "unterminated-comment"
)

// LexErr says that the text has no token at some point. From is the rune index where the
// offending construct starts, To the index of the rune which makes it invalid (len(text) when the
// text ends too early).
type LexErr struct {
	Kind     string
	From, To int
	Msg      string
}

// Result is the full analysis of a text.
type Result struct {
	Runes  []rune
	Tokens []Tok // ends with EOF iff Err == nil
	Err    *LexErr
	Blank  []bool // per rune: whitespace or inside a (terminated or unterminated) comment
}

var keywords = map[string]string{
	"import": "Import", "as": "As", "from": "From", "try": "Try", "catch": "Catch", "in": "In",
	"let": "Let", "pub": "Pub", "fn": "Fn", "if": "If", "else": "Else", "match": "Match",
	"for": "For", "while": "While", "loop": "Loop", "break": "Break", "continue": "Continue",
	"return": "Return", "type": "Type", "new": "New", "spawn": "Spawn", "event": "Event",
	"impl": "Impl", "with": "With", "templ": "Templ", "trigger": "Trigger",
	"true": "True", "on": "True", "false": "False", "off": "False", "none": "None", "null": "Null",
	"_": "Underscore",
}

var simple = map[rune]rune{'\\': '\\', '\'': '\'', '"': '"', 'b': '\b', 'n': '\n', 'r': '\r', 't': '\t'}

// Operators, longest first.
var Operators = []struct{ Text, Kind string }{
	{"**=", "PowerAssign"}, {"<<=", "ShiftLeftAssign"}, {">>=", "ShiftRightAssign"},
	{"..", "DoubleDot"}, {"->", "Arrow"}, {"=>", "FatArrow"}, {"~>", "TildeArrow"},
	{"||", "Or"}, {"&&", "And"}, {"==", "Equal"}, {"!=", "NotEqual"}, {"<=", "LessThanEqual"},
	{">=", "GreaterThanEqual"}, {"**", "Power"}, {"<<", "ShiftLeft"}, {">>", "ShiftRight"},
	{"+=", "PlusAssign"}, {"-=", "MinusAssign"}, {"*=", "MultiplyAssign"}, {"/=", "DivideAssign"},
	{"%=", "ModuloAssign"}, {"|=", "BitOrAssign"}, {"&=", "BitAndAssign"}, {"^=", "BitXorAssign"},
	{"#", "HashTag"}, {"?", "QuestionMark"}, {"@", "AtSymbol"}, {"$", "DollarSymbol"},
	{";", "Semicolon"}, {",", "Comma"}, {":", "Colon"}, {".", "Dot"},
	{"(", "LParen"}, {")", "RParen"}, {"{", "LCurly"}, {"}", "RCurly"}, {"[", "LBracket"}, {"]", "RBracket"},
	{"<", "LessThan"}, {">", "GreaterThan"}, {"!", "Not"},
	{"+", "Plus"}, {"-", "Minus"}, {"*", "Multiply"}, {"/", "Divide"}, {"%", "Modulo"},
	{"|", "BitOr"}, {"&", "BitAnd"}, {"^", "BitXor"}, {"=", "Assign"},
}

func hasOp(rs []rune, op string) bool {
	if len(rs) < len(op) {
		return false
	}
	for k := 0; k < len(op); k++ {
		if rs[k] != rune(op[k]) {
			return false
		}
	}
	return true
}

// Keywords returns the keyword spellings with their kinds.
func Keywords() map[string]string {
	m := map[string]string{}
	for k, v := range keywords {
		m[k] = v
	}
	return m
}

func isDigit(r rune) bool  { return r >= '0' && r <= '9' }
func isOctal(r rune) bool  { return r >= '0' && r <= '7' }
func isLetter(r rune) bool { return r >= 'a' && r <= 'z' || r >= 'A' && r <= 'Z' || r == '_' }
func isHex(r rune) bool {
	return isDigit(r) || r >= 'a' && r <= 'f' || r >= 'A' && r <= 'F'
}
func hexVal(r rune) uint64 {
	switch {
	case isDigit(r):
		return uint64(r - '0')
	case r >= 'a':
		return uint64(r-'a') + 10
	}
	return uint64(r-'A') + 10
}

// Positions computes the location of every rune index 0..len(runes) (the last one is the
// position just behind the text).
func Positions(runes []rune) []Loc {
	locs := make([]Loc, len(runes)+1)
	line, col := uint(1), uint(1)
	for i := 0; i <= len(runes); i++ {
		locs[i] = Loc{Line: line, Column: col, Index: uint(i)}
		if i < len(runes) {
			if runes[i] == '\n' {
				line++
				col = 1
			} else {
				col++
			}
		}
	}
	return locs
}

// Lex returns the tokens of text (ending with EOF) or the tokens before the first point where
// the grammar has no token, together with the error.
func Lex(text, filename string) (tokens []Tok, err *LexErr) {
	r := Analyze(text, filename)
	return r.Tokens, r.Err
}

func Analyze(text, filename string) *Result {
	rs := []rune(text)
	n := len(rs)
	res := &Result{Runes: rs, Blank: make([]bool, n)}
	locs := Positions(rs)
	emit := func(kind, value string, from, to int, doubt bool) { // to inclusive
		res.Tokens = append(res.Tokens, Tok{Kind: kind, Value: value, Raw: string(rs[from : to+1]), Doubt: doubt,
			Span: Span{Start: locs[from], End: locs[to], Filename: filename}})
	}
	fail := func(kind string, from, to int, msg string) *Result {
		res.Err = &LexErr{Kind: kind, From: from, To: to, Msg: msg}
		return res
	}
	at := func(i int) rune {
		if i < n {
			return rs[i]
		}
		return -1
	}
	i := 0
	for i < n {
		c := rs[i]
		switch {
		case c == ' ' || c == '\t' || c == '\r' || c == '\n':
			res.Blank[i] = true
			i++
		case c == '/' && at(i+1) == '/':
			j := i
			for j < n && rs[j] != '\n' {
				j++
			}
			if j < n {
				j++ // the LF belongs to the comment
			}
			for k := i; k < j; k++ {
				res.Blank[k] = true
			}
			i = j
		case c == '/' && at(i+1) == '*':
			j := i + 2
			closed := false
			for j+1 < n {
				if rs[j] == '*' && rs[j+1] == '/' {
					closed = true
					break
				}
				j++
			}
			if !closed {
				for k := i; k < n; k++ {
					res.Blank[k] = true
				}
				return fail(ErrUnterminatedComment, i, n, "block comment never closed")
			}
			for k := i; k <= j+1; k++ {
				res.Blank[k] = true
			}
			i = j + 2
		case isDigit(c):
			j := i + 1
			var val []rune
			val = append(val, c)
			for j < n && (isDigit(rs[j]) || rs[j] == '_') {
				if rs[j] != '_' {
					val = append(val, rs[j])
				}
				j++
			}
			kind := "Int"
			if at(j) == 'f' {
				kind = "Float"
				j++
			} else if at(j) == '.' && isDigit(at(j+1)) {
				kind = "Float"
				val = append(val, '.')
				j++
				for j < n && (isDigit(rs[j]) || rs[j] == '_') {
					if rs[j] != '_' {
						val = append(val, rs[j])
					}
					j++
				}
			}
			emit(kind, string(val), i, j-1, false)
			i = j
		case isLetter(c):
			j := i + 1
			for j < n && (isLetter(rs[j]) || isDigit(rs[j])) {
				j++
			}
			word := string(rs[i:j])
			kind, ok := keywords[word]
			if !ok {
				kind = "Identifier"
			}
			emit(kind, word, i, j-1, false)
			i = j
		case c == '"' || c == '\'':
			j := i + 1
			var val []rune
			doubt := false
			for {
				if j >= n {
					return fail(ErrUnterminatedString, i, n, "string never closed")
				}
				d := rs[j]
				if d == c {
					break
				}
				if d != '\\' {
					val = append(val, d)
					j++
					continue
				}
				// escape sequence
				if j+1 >= n {
					return fail(ErrUnfinishedEscape, i, n, "text ends inside an escape sequence")
				}
				e := rs[j+1]
				if v, ok := simple[e]; ok {
					val = append(val, v)
					j += 2
					continue
				}
				var digits, radix, first int
				switch {
				case e == 'x':
					digits, radix, first = 2, 16, j+2
				case e == 'u':
					digits, radix, first = 4, 16, j+2
				case e == 'U':
					digits, radix, first = 8, 16, j+2
				case isOctal(e):
					digits, radix, first = 3, 8, j+1
				default:
					return fail(ErrBadEscape, i, j+1, "unknown escape character")
				}
				var code uint64
				for k := first; k < first+digits; k++ {
					if k >= n {
						return fail(ErrBadEscape, i, n, "text ends inside an escape sequence")
					}
					ok := isHex(rs[k])
					if radix == 8 {
						ok = isOctal(rs[k])
					}
					if !ok {
						return fail(ErrBadEscape, i, k, "bad digit in escape sequence")
					}
					code = code*uint64(radix) + hexVal(rs[k])
				}
				if code > 0x10FFFF || code >= 0xD800 && code <= 0xDFFF {
					doubt = true
					code = 0xFFFD
				}
				val = append(val, rune(code))
				j = first + digits
			}
			emit("String", string(val), i, j, doubt)
			i = j + 1
		default:
			matched := false
			for _, op := range Operators {
				if hasOp(rs[i:], op.Text) {
					emit(op.Kind, op.Text, i, i+len(op.Text)-1, false)
					i += len(op.Text)
					matched = true
					break
				}
			}
			if matched {
				continue
			}
			if c == '~' {
				return fail(ErrLoneTilde, i, i+1, "'~' not followed by '>'")
			}
			return fail(ErrIllegalChar, i, i, "illegal character")
		}
	}
	res.Tokens = append(res.Tokens, Tok{Kind: "EOF", Value: "", Span: Span{Start: locs[n], End: locs[n], Filename: filename}})
	return res
}
