package main

var stdAssume = []string{
	"the Go toolchain, rapid v1.3.0 and the harness's own models (hs, hostkit) are correct",
	"the repository is used through its exported API the way its own drivers (cmd/, testing_*.go) use it",
}

var props = map[string]PropCfg{}

func reg(p PropCfg) {
	p.Assumptions = append(append([]string{}, stdAssume...), p.Assumptions...)
	props[p.ID] = p
}

func init() {
	reg(PropCfg{ID: "C01", Pkg: "c01", Level: "translation_validation",
		Rule: "programs drawn from the typed model grammar (hs/gen), each compiled and run on the VM and compared with the reference semantics (hs/eval.go): host writes, trigger registrations, outcome class, fatal kind, uncaught-throw message; non-trivial = reference trace executes >= 8 steps and produces output or a non-ok outcome; distinct by program text",
		Jobs: []Job{
			{Name: "program", Run: "^TestProgram$", Checks: [2]int{1500, 8000}, Shards: [2]int{8, 16}},
			{Name: "tables", Run: "^TestTable", Shards: [2]int{4, 8}},
		}})
}

func init() {
	reg(PropCfg{ID: "C04", Pkg: "c04", Level: "translation_validation",
		Rule: "programs of the language fragment both backends implement (typed model grammar without trigger statements, spawn and capturing closures; unicode strings included), each run by the tree-walking interpreter and compiled+run on the VM: host writes and outcome class (ok / uncaught throw + message / fatal kind by name) must agree; non-trivial = program executes >= 8 reference steps with output or a non-ok outcome, or leaves the modelled fragment; distinct by program text",
		Jobs: []Job{
			{Name: "diff", Run: "^TestDiff$", Checks: [2]int{1500, 10000}, Shards: [2]int{8, 16}},
			{Name: "pairsdiff", Run: "^TestTablePairsDiff$", Shards: [2]int{8, 16}},
			{Name: "agreement", Run: "^TestTableAgreement$", Shards: [2]int{2, 4}},
		}})
}

func init() {
	reg(PropCfg{ID: "C06", Pkg: "c06", Level: "exploration",
		Rule: "source texts lexed by the repository lexer and by an independent reference lexer written from grammar.ebnf (verif/reflex): identical (kind, decoded value) sequences, identical inclusive spans, errors exactly where the grammar has no token, span partition of all non-blank non-comment runes; table = every string of length <= 3 (quick) / <= 4 (thorough) over a 50-symbol lexical alphabet, random = generated lexeme sequences with all separators; non-trivial = >= 2 tokens with a zero-width adjacency, multi-character operator, escape or separated number; distinct by text",
		Jobs: []Job{
			{Name: "table", Run: "^TestTableExhaustive$", Shards: [2]int{4, 8}},
			{Name: "lexemes", Run: "^TestLexemes$", Checks: [2]int{20000, 200000}, Shards: [2]int{4, 16}},
			{Name: "fuzz", Fuzz: "FuzzLex", FuzzSec: 300},
		}})
}

func init() {
	reg(PropCfg{ID: "C02", Pkg: "c02", Level: "exploration",
		Rule: "analyzer-accepted programs from the wild generator (typed model grammar plus hostile operands: zero divisors, negative/huge shift counts and exponents, float ** and / 0, unwrap/expect of none, unicode indexing, out-of-range indices) x backend in {VM, interpreter} x CoreLimits drawn from {1..8,16,64,500,10000}^3 (40% of cases); validity predicate: the sandbox worker answers with outcome in {ok, exception, fatal, terminated}, never dies (Go panic / fatal error), never hangs (double-checked budget), typed host functions only receive conforming values; non-trivial = accepted program containing >= 1 hostile construct; distinct by program text + limits. Table: every program of the verif/pairs cross product (pool expressions under every infix and assignment operator, index, call, member, declared type, ...) that the analyzer accepts is run on both backends under the same predicate",
		Jobs: []Job{
			{Name: "robust", Run: "^TestRobust$", Checks: [2]int{1200, 10000}, Shards: [2]int{8, 16}},
			{Name: "pairsrun", Run: "^TestTablePairsRun$", Shards: [2]int{8, 16}},
			{Name: "snippetsrun", Run: "^TestTableSnippetsRun$", Shards: [2]int{2, 4}},
		}})
}

func init() {
	reg(PropCfg{ID: "C07", Pkg: "c07", Level: "exploration",
		Rule: "expression texts parsed by the repository parser and by an independent table-driven reference parser written from the operator table in the property: canonical S-expression trees must be identical; table = every ordered pair and triple of the 19 binary operators and 'as', the 12 assignment operators at the root over every pair, all prefix x binary x postfix combinations (exhaustive); random = expression trees to depth 8 printed with minimal, textbook and full parentheses; layout = token sequences of the shipped examples/tests and generated programs re-spaced with whitespace/comments, redundant parentheses around single-node operands, trailing commas: canonical program trees and error status must not change; non-trivial = >= 2 operators (two levels to order or one level to associate) / a variant that differs from the original text; distinct by text",
		Jobs: []Job{
			{Name: "tables", Run: "^(TestTablePairsTriples|TestReferenceExamples)$", Shards: [2]int{2, 4}},
			{Name: "blockpostfix", Run: "^TestTableBlockPostfix$", Shards: [2]int{4, 8}},
			{Name: "trees", Run: "^TestTrees$", Checks: [2]int{5000, 60000}, Shards: [2]int{4, 16}},
			{Name: "layout", Run: "^TestLayout$", Checks: [2]int{3000, 40000}, Shards: [2]int{4, 16}},
		}})
}

func init() {
	reg(PropCfg{ID: "C11", Pkg: "c11", Level: "exploration",
		Rule: "exhaustive enumeration of nestings of {loop, while, for-range, for-list, block expression, if-then, if-else, match arm, match default, try body, catch body, function call, lambda call, recursive call (deepest of three activations), recursive call inside try} to depth 2 (quick) / 3 (thorough) around each exit {break, continue, return value, return, throw caught, throw uncaught, fatal division, fatal index, none}; each program has markers before/after the exit, counters, locals printed afterwards, an outer try that must not fire, and runs the construct twice; VM and interpreter output/outcome are compared with the reference semantics; all enumerated cases are non-trivial by construction (the reference trace executes the exit); distinct by (context path, exit)",
		Jobs: []Job{
			{Name: "nesting", Run: "^TestTableNesting$", Shards: [2]int{4, 16}},
		}})
}

func init() {
	reg(PropCfg{ID: "C16", Pkg: "c16", Level: "exploration",
		Rule: "model-based histories: a generated program (functions over scalars, lists, objects, options; global counters/lists; returns from loops/try/match; throwing and fatally failing functions) and a history of 1-10 host invocations (function, argument values; SpawnSync or SpawnAsync+Wait+HandleTermination) on ONE VM; the reference semantics with a persistent global environment gives per call the expected outcome, output and return value; after every completed call the residue is checked (no cores, lock free, finished core: empty call stack/handler stack, at most the return value on the operand stack, memory pointer 0); after a failed call every later call must fail rather than block; non-trivial = history of >= 3 calls over >= 2 functions, or a failing call followed by another call; distinct by program + history. Spawning histories: start(round) spawns 1-3 workers which spin, spawn 0-2 helpers each part-way, spin again, count in their own global and print, and returns at once; get(x) reads all counters; arm(w) makes worker w throw at its end; a call is complete when all its threads are (output multiset, counters seen by later get calls, failure of a thread fails the call and the calls after it); GOMAXPROCS 1/2/4/16; non-trivial = nested spawn or failing thread",
		Jobs: []Job{
			{Name: "history", Run: "^TestHistory$", Checks: [2]int{800, 5000}, Shards: [2]int{8, 16}},
			{Name: "spawnhistory", Run: "^TestSpawnHistory$", Checks: [2]int{60, 400}, Shards: [2]int{4, 8}},
			{Name: "argorder", Run: "^(TestTableArgumentOrder|TestTableReturnFromOperandPosition)$", Shards: [2]int{2, 4}},
		}})
}

func init() {
	reg(PropCfg{ID: "C10", Pkg: "c10", Level: "exploration",
		Rule: "owned cancel schedule: the harness context's Done() is the poll; for each program (endless loops, counting/printing loops, calls, deep recursion, throw/catch cycles, code inside handlers, sleeps, 1-6 spawned cores) and backend a dry run counts K polls, then cancellation is made visible at the k-th poll for EVERY k <= K when K <= 120 (quick) / 400 (thorough) and for a stratified sample otherwise, plus generated loop programs with random k; oracle: the wait returns (double-checked budget), outcome is a termination interrupt iff the k-th poll happened, polls/writes after the cancelling poll are bounded by the number of live cores, no cores/goroutines are left and the cores lock is free; non-trivial = 1 < k < K; distinct by (program, backend, k)",
		Jobs: []Job{
			{Name: "sweep", Run: "^TestTableSweep$", Shards: [2]int{8, 16}},
			{Name: "hostcancel", Run: "^TestTableHostCancel$", Shards: [2]int{4, 8}},
			{Name: "random", Run: "^TestRandomPrograms$", Checks: [2]int{400, 3000}, Shards: [2]int{6, 16}},
		}})
}

func init() {
	reg(PropCfg{ID: "C09", Pkg: "c09", Level: "exploration",
		Rule: "threshold and scaling oracle without a model of the compile scheme: program families parameterised by recursion depth, expression nesting, locals per frame, nested calls (sizes 1,4,16,48) x limit dimension (VM call depth, operand stack, memory; interpreter call depth) x a scan of 24 limit values 0..5000: never a crash, every stop has the corresponding fatal kind, outcome monotone in the limit, a demand >= 12x the limit is stopped; leak freedom: for 43 loop bodies (every statement form) the smallest limit with which 10 iterations complete is found by bisection, then 1000 and 20000 (thorough 200000) iterations must complete with that limit + 25% slack; non-trivial = every scanned family/dimension and every leak check; distinct by (family|body, dimension, size)",
		Jobs: []Job{
			{Name: "thresholds", Run: "^TestTableThresholds$", Shards: [2]int{8, 8}},
			{Name: "leaks", Run: "^TestTableLeaks$", Shards: [2]int{8, 16}},
		}})
}

func init() {
	reg(PropCfg{ID: "C17", Pkg: "c17", Level: "exploration",
		Rule:        "generated programs spawning 1-8 cores; every thread prints unique whole lines built from its spawn arguments (which the spawner overwrites right after the spawn), increments a shared global, pushes to a shared list, reads a read-only global; variants where one thread fails fatally and where main finishes first; each program runs several times in a -race build of the worker with GOMAXPROCS in {1,2,4,16} and optional yields in host callbacks; oracle: output multiset equals the expected multiset of whole lines, nothing arrives after the wait returned, a failing thread's interrupt is the one reported and no core/goroutine survives it, the race detector stays silent (GORACE=halt_on_error: a report kills the worker and is read from its stderr); interleavings are SAMPLED, not enumerated; non-trivial = >= 2 threads; distinct by program text + scheduler setting",
		Assumptions: []string{"the Go race detector reports only races that occur in the sampled executions"},
		Jobs: []Job{
			{Name: "threads", Run: "^TestThreads$", Checks: [2]int{120, 1200}, Shards: [2]int{8, 16}, Race: true, Env: []string{"GORACE=halt_on_error=1"}},
		}})
}

func init() {
	reg(PropCfg{ID: "C03", Pkg: "c03", Level: "exploration",
		Rule: "rule x context table: 51 statement-level rules (operand/argument/assignment/condition/branch/iterator mismatches, arity, unknown identifier/type/member, break/continue outside loops, implicit any, ...) each instantiated as a well-typed snippet and its single-fault ill-typed twin inside 15 syntactic contexts (function body, nested block, if/else, loops, lambda body, lambda in loop, match arms, try/catch, after a closure literal, value block) plus 41 whole-program rules (return types, duplicates, non-constant global, main shape, singletons, triggers, impl blocks vs template, imports): the good twin must get no error-level diagnostic, the bad twin at least one; random accept direction: generated well-typed programs must be accepted and the analyzer's recorded type of every top-level let equals the generator's type; random reject direction: single-fault mutants of generated programs (every fault site of the base in the thorough tier: operand, argument, arity, condition, iterator, index, list element, branch, annotated let) must be rejected; non-trivial = every ill-typed twin (differs from an accepted base at exactly one site) and generated programs with >= 3 type kinds; distinct by (rule, context) / program text",
		Jobs: []Job{
			{Name: "rules", Run: "^TestTableRules$", Shards: [2]int{4, 8}},
			{Name: "members", Run: "^TestTableMemberNames$", Shards: [2]int{2, 4}},
			{Name: "accept", Run: "^TestAcceptGenerated$", Checks: [2]int{3000, 20000}, Shards: [2]int{6, 16}},
			{Name: "mutants", Run: "^TestRejectMutants$", Checks: [2]int{1000, 3000}, Shards: [2]int{6, 16}},
		}})
}

func init() {
	reg(PropCfg{ID: "C13", Pkg: "c13", Level: "exploration",
		Rule: "typed value generators (nested lists/objects/any-objects/options/ranges/scalars, depth <= 3 quick / 4 thorough, unicode strings, empty containers, finite floats) producing correlated pairs/triples (copy, single-difference mutant, permuted key order); oracles: IsEqual reflexive/symmetric/transitive and equal to the model's structural equality in both value libraries; Clone equal and state-disjoint under 1-12 step mutation histories checked against two independent model values (VM library; interpreter values have no Clone); TypeAwareUnmarshal(Marshal(v)) == v and the in-program to_json/parse_json round trip on both backends; both libraries display equal values as the same text; exhaustive small table of 416 near-equal pairs; non-trivial = type depth >= 2 or >= 2 elements; distinct by value content",
		Jobs: []Job{
			{Name: "table", Run: "^TestTableSmall$", Shards: [2]int{1, 2}},
			{Name: "strbuild", Run: "^TestTableStringBuilds$", Shards: [2]int{2, 2}},
			{Name: "eq", Run: "^TestEq$", Checks: [2]int{30000, 300000}, Shards: [2]int{2, 8}},
			{Name: "clone", Run: "^TestClone$", Checks: [2]int{30000, 200000}, Shards: [2]int{2, 8}},
			{Name: "json", Run: "^TestJSON$", Checks: [2]int{30000, 300000}, Shards: [2]int{2, 8}},
			{Name: "display", Run: "^TestDisplay$", Checks: [2]int{30000, 200000}, Shards: [2]int{2, 8}},
			{Name: "jsonprog", Run: "^TestJSONProg$", Checks: [2]int{500, 2500}, Shards: [2]int{4, 8}},
			{Name: "eqprog", Run: "^TestEqProg$", Checks: [2]int{500, 2500}, Shards: [2]int{4, 8}},
		}})
}

func init() {
	reg(PropCfg{ID: "C14", Pkg: "c14", Level: "exploration",
		Rule: "metamorphic relation 'repetition': the same sources are analysed, compiled and run R times (quick 6-12, thorough 24-60) inside one worker process and twice more in a second process with a different GOMAXPROCS (1/2/16): the multiset of diagnostics (level, message, span), the output and the outcome of both backends must be identical in every repetition; inputs: generated programs (objects with several fields printed/compared, lambdas, many locals) and hand-built order-sensitive programs (4 modules with overlapping names, objects rendered/serialised/iterated, diagnostics in several modules); a dependence on the order of a map with m keys at a single site is missed by R repetitions with probability about (1/m!)^(R-1); non-trivial = object literal, >= 2 lambdas or >= 2 functions / every fixed program; distinct by program text",
		Jobs: []Job{
			{Name: "fixed", Run: "^TestTableFixed$", Shards: [2]int{4, 4}},
			{Name: "cancelpoint", Run: "^TestTableCancelPoint$", Shards: [2]int{4, 4}},
			{Name: "generated", Run: "^TestRepeatGenerated$", Checks: [2]int{200, 1500}, Shards: [2]int{8, 16}},
		}})
}

func init() {
	reg(PropCfg{ID: "C18", Pkg: "c18", Level: "exploration",
		Rule: "exhaustive cross product read from the code at run time: for 21 type instantiations every key of ast.Type.Fields() (178 type/member pairs) must exist in Fields() of runtime values of that type in both value libraries; for every pair, receivers {empty, one, many / \"\", ascii, non-ascii / ranges / options / objects / any-objects} x argument tuples from boundary sets built from the ADVERTISED parameter types (indices -len-1..len+1, Min/MaxInt64, empty/present/absent strings and elements, some/none) a one-line program uses the result at its advertised type on both backends: never a crash or hang, outcome ok or an interrupt; index-taking members and the indexing forms l[i], l[i]=v, s[i], obj[k], {?}[k], {?}->k are compared with a reference model (negative indices from the end, out of range = interrupt); members with an unambiguous meaning are compared with the model's value; every executed case is non-trivial; distinct by program text",
		Jobs: []Job{
			{Name: "keys", Run: "^TestTableKeys$", Shards: [2]int{1, 1}},
			{Name: "members", Run: "^TestTableMembers$", Shards: [2]int{2, 4}},
			{Name: "index", Run: "^TestTableIndex$", Shards: [2]int{2, 4}},
			{Name: "mutation", Run: "^(TestTableReceiverMutation|TestTableAnyObjectKeyNames|TestTableObjectFieldNames|TestTableAdmittedValues|TestTableOwnKeysReach|TestTableGetTypeKinds)$", Shards: [2]int{1, 1}},
		}})
}

func init() {
	reg(PropCfg{ID: "C12", Pkg: "c12", Level: "exploration",
		Rule: "(value, target type) pairs over nested lists/objects/any-objects/options/scalars (depth <= 3 quick / 4 thorough): conforming by construction, conforming after a permitted scalar conversion, and near misses at a generator-known path (wrong leaf kind, missing/extra field, wrong element, none/null where not allowed, list where object ...); three delivery routes: (api) DeepCast in both value libraries with allowCasts true/false, (json) TypeAwareUnmarshalValue, (prog) the value arrives as 'any' from a host function or parse_json and crosses 'as T' / an annotated let inside try/catch followed by typed uses of every leaf, on both backends, (host) SpawnSync with conforming / non-conforming arguments and declared return types; own oracle predicates (convertible / conforms) written from the property; exhaustive near-miss table of 20 types x 16 near-miss kinds; non-trivial = type depth >= 2 or a near miss at depth >= 1; distinct by value + type + route",
		Jobs: []Job{
			{Name: "table", Run: "^TestTableNearMiss$", Shards: [2]int{2, 4}},
			{Name: "anytargets", Run: "^(TestTableAnyTargets|TestTableAdmittedSlots)$", Shards: [2]int{1, 1}},
			{Name: "api", Run: "^TestAPI$", Checks: [2]int{40000, 200000}, Shards: [2]int{2, 8}},
			{Name: "json", Run: "^TestJSON$", Checks: [2]int{20000, 100000}, Shards: [2]int{2, 8}},
			{Name: "prog", Run: "^TestProg$", Checks: [2]int{600, 3000}, Shards: [2]int{6, 16}},
			{Name: "host", Run: "^TestHost$", Checks: [2]int{400, 2000}, Shards: [2]int{4, 8}},
		}})
}

func init() {
	reg(PropCfg{ID: "C15", Pkg: "c15", Level: "exploration",
		Rule: "exhaustive small scope of module graphs: 14 shapes over an entry and <= 2 (quick) / 3 (thorough) library modules (single, chain, diamond, fan, unused module, self-import, 2- and 3-cycles through and not through the entry); every module defines same-named private globals x, y and a private function helper plus pub items; every assignment of {pub function, pub global, pub type} imports to the edges, with and without a singleton in an imported module, and every single faulty import kind {private function, private global, missing item, type/value kind confusion, missing module} on every edge; oracle: at least one error-level diagnostic iff the graph has a faulty import or a cycle; fault-free graphs are executed 3 times on both backends and compared with the reference semantics (one environment per module, globals initialised once, each singleton loaded exactly once); every graph is non-trivial; distinct by graph",
		Jobs: []Job{
			{Name: "graphs", Run: "^TestTableGraphs$", Shards: [2]int{4, 8}},
			{Name: "linking", Run: "^TestTableLinking$", Shards: [2]int{1, 1}},
		}})
}

func init() {
	reg(PropCfg{ID: "C08", Pkg: "c08", Level: "exploration",
		Rule: "validity predicates over every reported position: (text) generated programs damaged by 1-3 truncations / deletions / insertions of hostile tokens / duplications / unterminated constructs at EOF / a non-ASCII first line, as entry or as imported module: every syntax-error and diagnostic span names a served file, is the whole-file position or has line/column/index that agree with the file's text, start <= end, and renders without failure; (culprit) 20 single-fault rules x 8 contexts (incl. after a non-ASCII line, after a multi-line call, inside an imported module): at least one error-level diagnostic intersects the culprit text; (runtime) 7 runtime failures x call depth 0-3 x entry/imported module x non-ASCII prefix x both backends: the caught object's line/column/filename lie inside the failing construct, uncaught/fatal interrupt spans are valid and touch it; non-trivial = every damaged text / table case; distinct by text or table key",
		Jobs: []Job{
			{Name: "culprits", Run: "^(TestTableCulprits|TestTableTopLevelFaults|TestTableCompanions)$", Shards: [2]int{2, 4}},
			{Name: "pairspans", Run: "^TestTablePairSpans$", Shards: [2]int{8, 8}},
			{Name: "runtime", Run: "^TestTableRuntime$", Shards: [2]int{4, 8}},
			{Name: "damaged", Run: "^TestDamagedPrograms$", Checks: [2]int{5000, 40000}, Shards: [2]int{8, 16}},
		}})
}

func init() {
	reg(PropCfg{ID: "C05", Pkg: "c05", Level: "exploration",
		Rule: "validity predicate 'the call returns': every input is lexed to EOF/first error and parsed in-process (recover + watchdog, a hang is re-run before it counts) and analysed in the sandbox worker as entry module (main required / not required) and, for a drawn subset of 10 module variants, as the text a host returns for an imported module (named/plain/kind imports, module importing the entry, importing itself, 2-cycles between non-entry modules, host error, module not found, import chains and diamonds); inputs: arbitrary and hostile byte strings up to 64 KiB, token soup over the whole token alphabet, untyped grammar-shaped programs, 1-3 token mutants of generated/shipped programs, EVERY prefix of programs <= 2 KiB (token ends + every 5th rune beyond), every single-token delete/duplicate/swap/replace, 30+ nesting generators at depth 1..1000 and 64 KiB single lexemes; no panic, no fatal error, no hang; problems only in returned errors/diagnostics; non-trivial = >= 5 tokens before the first hard error; distinct by text + variant",
		Jobs: []Job{
			{Name: "probes", Run: "^TestProbes$", Shards: [2]int{2, 4}},
			{Name: "pairs", Run: "^TestTableTypePairs$", Shards: [2]int{8, 8}},
			{Name: "depth", Run: "^TestDepth$", Shards: [2]int{4, 8}},
			{Name: "prefixes", Run: "^TestPrefixes$", Shards: [2]int{4, 16}},
			{Name: "edits", Run: "^TestTokenEdits$", Shards: [2]int{4, 16}},
			{Name: "bytes", Run: "^TestRandomBytes$", Checks: [2]int{400, 12000}, Shards: [2]int{4, 16}},
			{Name: "soup", Run: "^TestTokenSoup$", Checks: [2]int{400, 12000}, Shards: [2]int{4, 16}},
			{Name: "fuzzparse", Fuzz: "FuzzParse", FuzzSec: 420},
			{Name: "fuzzanalyze", Fuzz: "FuzzAnalyze", FuzzSec: 420},
		}})
}

func init() {
	reg(PropCfg{ID: "C19", Pkg: "c19", Level: "translation_validation",
		Rule: "round trip / differential: for every accepted program P (generated by the typed model grammar with unicode strings; a table of every printer-sensitive form - string escapes, floats, match default positions, object keys, any-object literals, singletons, impl blocks, annotations, pub/event, imports, function types, nested infix trees - and every optimizer position of a diverging statement; generated string and float literals; random infix trees built directly as analysed ASTs; the shipped examples and test scripts) the parser AST print P1 and the analysed AST print P2 must parse, be accepted, write the same output with the same outcome on VM and interpreter, and print to themselves (fixed point after one round); compile(Optimize(Analyze(P))) must behave like compile(Analyze(P)); non-trivial = every accepted program; distinct by program text + kind",
		Jobs: []Job{
			{Name: "forms", Run: "^(TestTableForms|TestTableModuleForms)$", Shards: [2]int{4, 8}},
			{Name: "shipped", Run: "^TestTableShipped$", Shards: [2]int{4, 8}},
			{Name: "parsed", Run: "^TestParsedRoundTrip$", Checks: [2]int{600, 5000}, Shards: [2]int{4, 16}},
			{Name: "analyzed", Run: "^TestAnalyzedRoundTrip$", Checks: [2]int{600, 5000}, Shards: [2]int{4, 16}},
			{Name: "optimizer", Run: "^TestOptimizer$", Checks: [2]int{600, 5000}, Shards: [2]int{4, 16}},
			{Name: "strings", Run: "^TestStringLiterals$", Checks: [2]int{500, 4000}, Shards: [2]int{2, 8}},
			{Name: "floats", Run: "^TestFloatLiterals$", Checks: [2]int{500, 4000}, Shards: [2]int{2, 8}},
			{Name: "mixed", Run: "^TestMixedForms$", Checks: [2]int{500, 4000}, Shards: [2]int{2, 8}},
			{Name: "trees", Run: "^TestTreeShape$", Checks: [2]int{800, 6000}, Shards: [2]int{2, 8}},
		}})
}

func init() {
	reg(PropCfg{ID: "C20", Pkg: "c20", Level: "translation_validation",
		Rule: "metamorphic: (program, seed, passes) with programs from the property's class (generated with pure operands, small non-negative multiplication operands and small numeric literals; the shipped examples the analyzer accepts; three hand-written programs dense with guarded break/continue/return in loop, while, for, match and try, one of them with the loop control already inside while conditions, x 40 (quick) / 400 (thorough) seeds x passes 2, 3, 5) x seeds over int64 incl. 0, +-1, extremes x passes 1-4: every variant the transformer returns must print to a text the analyzer accepts and must write the same output with the same outcome on the VM as the original; a transformer panic is a failure; non-trivial = variant text differs from the original; distinct by program + seed + passes",
		Jobs: []Job{
			{Name: "examples", Run: "^TestTableExamples$", Shards: [2]int{6, 8}},
			{Name: "loopctl", Run: "^TestTableLoopControl$", Shards: [2]int{8, 16}},
			{Name: "generated", Run: "^TestGenerated$", Checks: [2]int{500, 4000}, Shards: [2]int{8, 16}},
		}})
}
