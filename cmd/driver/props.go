package main

var stdAssume = []string{
	"the Go toolchain, rapid v1.3.0 and the harness's own models (hs, hostkit) are correct",
	"the repository is used through its exported API the way its own drivers (cmd/, testing_*.go) use it",
}

var props = map[string]PropCfg{}

func reg(p PropCfg) {
	p.Assumptions = append(append([]string{}, stdAssume...), p.Assumptions...)
	props[p.ID] = p
}
