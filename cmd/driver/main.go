// driver: builds the worker and the property's test binary against /repo's current tree, runs
// the replay, table, random and fuzz tiers in shards, merges statistics into
// evidence/<id>.json and prints the verdict lines.
package main

import (
	"bytes"
	"encoding/json"
	"fmt"
	"os"
	"os/exec"
	"path/filepath"
	"regexp"
	"sort"
	"strconv"
	"strings"
	"sync"
	"time"

	"verif/pk"
)

var coverArgs []string

var root = func() string {
	if r := os.Getenv("VERIF_ROOT"); r != "" {
		return r
	}
	if wd, err := os.Getwd(); err == nil {
		if _, err := os.Stat(filepath.Join(wd, "properties.jsonl")); err == nil {
			return wd
		}
	}
	return "/verif"
}()

type Job struct {
	Name    string
	Run     string // -test.run pattern
	Checks  [2]int // rapid checks per shard (quick, thorough); 0 = not a rapid job
	Shards  [2]int
	Race    bool   // use the -race worker
	Fuzz    string // native fuzz target name (thorough tier only)
	FuzzSec int
	Env     []string
}

type PropCfg struct {
	ID          string
	Pkg         string
	Level       string
	Rule        string
	Assumptions []string
	Jobs        []Job
}

func sh(tier string) int {
	if tier == "thorough" {
		return 1
	}
	return 0
}

func goEnv() []string {
	env := os.Environ()
	env = append(env, "GOFLAGS=-mod=mod", "GOPROXY=off", "GOSUMDB=off", "GOTOOLCHAIN=local")
	return env
}

func run(env []string, dir string, name string, args ...string) ([]byte, error) {
	cmd := exec.Command(name, args...)
	cmd.Dir = dir
	cmd.Env = env
	var buf bytes.Buffer
	cmd.Stdout = &buf
	cmd.Stderr = &buf
	err := cmd.Run()
	return buf.Bytes(), err
}

func die2(format string, a ...any) {
	fmt.Printf("CANNOT-JUDGE: "+format+"\n", a...)
	os.Exit(2)
}

type procResult struct {
	job      string
	shard    int
	exit     int
	timedOut bool
	log      string
	stats    *pk.Stats
}

func main() {
	if len(os.Args) < 2 {
		die2("usage: driver <ID> [--tier quick|thorough] [--replay file]")
	}
	id := strings.ToUpper(os.Args[1])
	tier := os.Getenv("VERIF_TIER")
	replay := ""
	for i := 2; i < len(os.Args); i++ {
		switch os.Args[i] {
		case "--tier":
			i++
			tier = os.Args[i]
		case "--replay":
			i++
			replay = os.Args[i]
		}
	}
	if tier == "" {
		tier = "quick"
	}
	seed, _ := strconv.ParseInt(os.Getenv("VERIF_SEED"), 10, 64)
	cfg, ok := props[id]
	if !ok {
		die2("unknown property %s", id)
	}
	start := time.Now()
	env := goEnv()

	// make sure go.sum exists and /repo's go.sum is left alone
	if _, err := os.Stat(filepath.Join(root, "go.sum")); err != nil {
		if b, err := os.ReadFile("/repo/go.sum"); err == nil {
			os.WriteFile(filepath.Join(root, "go.sum"), b, 0o644)
		}
	}
	repoSumBefore, _ := os.ReadFile("/repo/go.sum")

	binDir := filepath.Join(root, "bin")
	os.MkdirAll(binDir, 0o755)
	outDir := filepath.Join(root, "out", strings.ToLower(id))
	if replay == "" {
		os.RemoveAll(outDir)
	}
	os.MkdirAll(outDir, 0o755)

	// ---- build (always from /repo's current working tree through the replace directive)
	worker := filepath.Join(binDir, "worker-"+strings.ToLower(id))
	// VERIF_COVER=<dir>: measurement mode (tools/coverage.sh), never used by the registered commands
	coverDir := os.Getenv("VERIF_COVER")
	buildArgs := []string{"build"}
	testArgs := []string{"test", "-c"}
	if coverDir != "" {
		os.MkdirAll(coverDir, 0o755)
		cov := []string{"-cover", "-covermode=atomic", "-coverpkg=./...,github.com/smarthome-go/homescript/v3/homescript/..."}
		buildArgs = append(buildArgs, cov...)
		testArgs = append(testArgs, cov...)
	}
	if out, err := run(env, root, "go", append(buildArgs, "-o", worker, "./cmd/worker")...); err != nil {
		die2("worker build failed:\n%s", out)
	}
	needRace := false
	for _, j := range cfg.Jobs {
		if j.Race {
			needRace = true
		}
	}
	workerRace := worker + "-race"
	if needRace {
		if out, err := run(env, root, "go", "build", "-race", "-o", workerRace, "./cmd/worker"); err != nil {
			die2("race worker build failed:\n%s", out)
		}
	}
	testBin := filepath.Join(binDir, strings.ToLower(id)+".test")
	if out, err := run(env, root, "go", append(testArgs, "-o", testBin, "./props/"+cfg.Pkg)...); err != nil {
		die2("test build failed:\n%s", out)
	}
	if after, _ := os.ReadFile("/repo/go.sum"); !bytes.Equal(after, repoSumBefore) {
		os.WriteFile("/repo/go.sum", repoSumBefore, 0o644)
	}
	// rapid replays testdata/rapid first; never wanted here
	os.RemoveAll(filepath.Join(root, "props", cfg.Pkg, "testdata", "rapid"))

	if coverDir != "" {
		env = append(env, "VERIF_COVDIR="+coverDir)
		coverArgs = []string{"-test.gocoverdir=" + coverDir}
	}
	baseEnv := append(env, "VERIF_PROP="+id, "VERIF_TIER="+tier, "VERIF_SEED="+strconv.FormatInt(seed, 10),
		"VERIF_OUT="+outDir, "VERIF_KNOWN="+filepath.Join(root, "known_findings.json"), "VERIF_WORKER="+worker,
		"VERIF_ROOT="+root)

	known := loadKnown(id)
	// replays of schedule-dependent properties need the race worker and its environment
	replayEnv := []string{}
	for _, j := range cfg.Jobs {
		if j.Race {
			replayEnv = append(append(replayEnv, "VERIF_WORKER="+workerRace), j.Env...)
			break
		}
	}

	// ---- explicit replay
	if replay != "" {
		abs, _ := filepath.Abs(replay)
		out, _ := runTest(baseEnv, testBin, outDir, "replay", 0, 1, "^TestReplay$", 0, 0, append([]string{"VERIF_REPLAY=" + abs}, replayEnv...), 10*time.Minute)
		fmt.Print(out.log)
		if strings.Contains(out.log, "VERIF-REPLAY fail") {
			fmt.Printf("VIOLATION property=%s replay=%s\n", id, abs)
			os.Exit(1)
		}
		if strings.Contains(out.log, "VERIF-REPLAY pass") {
			os.Exit(0)
		}
		os.Exit(2)
	}

	violations := []string{}
	knownLines := []string{}
	cannot := []string{}

	// ---- replay tier: committed findings
	if len(known) > 0 {
		var files []string
		for _, k := range known {
			if k.Replay != "" {
				files = append(files, filepath.Join(root, k.Replay))
			}
		}
		if len(files) > 0 {
			res, _ := runTest(baseEnv, testBin, outDir, "replay", 0, 1, "^TestReplay$", 0, 0, append([]string{"VERIF_REPLAY=" + strings.Join(files, ",")}, replayEnv...), 20*time.Minute)
			for _, k := range known {
				if k.Replay == "" {
					continue
				}
				f := filepath.Join(root, k.Replay)
				switch {
				case strings.Contains(res.log, "VERIF-REPLAY fail file="+f+" "):
					if k.Status == "open" {
						knownLines = append(knownLines, fmt.Sprintf("KNOWN-FINDING: property=%s %s: %s", id, k.ID, k.What))
					} else {
						violations = append(violations, f)
						fmt.Printf("fixed finding %s reproduces again\n", k.ID)
					}
				case strings.Contains(res.log, "VERIF-REPLAY pass file="+f):
					if k.Status == "open" {
						fmt.Printf("note: open finding %s does not reproduce on this tree\n", k.ID)
					}
				default:
					cannot = append(cannot, "replay of "+k.ID+" gave no verdict")
				}
			}
			os.WriteFile(filepath.Join(outDir, "replay.log"), []byte(res.log), 0o644)
		}
	}

	// ---- table / random tiers
	var results []procResult
	var wg sync.WaitGroup
	sem := make(chan struct{}, 16)
	var rmu sync.Mutex
	timeout := 40 * time.Minute
	if tier == "thorough" {
		timeout = 6 * time.Hour
	}
	for ji, j := range cfg.Jobs {
		if j.Fuzz != "" {
			continue
		}
		shards := j.Shards[sh(tier)]
		if shards < 1 {
			continue
		}
		for s := 0; s < shards; s++ {
			wg.Add(1)
			go func(ji int, j Job, s, shards int) {
				defer wg.Done()
				sem <- struct{}{}
				defer func() { <-sem }()
				rseed := seed*100000 + int64(ji)*1000 + int64(s) + 1
				if rseed == 0 {
					rseed = 1
				}
				e := append([]string{}, j.Env...)
				if j.Race {
					e = append(e, "VERIF_WORKER="+workerRace)
				}
				r, _ := runTest(baseEnv, testBin, outDir, j.Name, s, shards, j.Run, j.Checks[sh(tier)], rseed, e, timeout)
				rmu.Lock()
				results = append(results, r)
				rmu.Unlock()
			}(ji, j, s, shards)
		}
	}
	wg.Wait()

	// ---- fuzz tier (thorough only)
	if tier == "thorough" {
		for _, j := range cfg.Jobs {
			if j.Fuzz == "" {
				continue
			}
			r := runFuzz(env, baseEnv, cfg, j, outDir)
			results = append(results, r)
		}
	}

	// ---- merge
	merged := pk.Stats{NonTrivial: map[string]bool{}, Classes: map[string]int{}, Discards: map[string]int{}, Gates: map[string]int{},
		KnownHits: map[string]int{}, Extra: map[string]int{}, Exhaustive: map[string]bool{}}
	sort.Slice(results, func(a, b int) bool {
		if results[a].job != results[b].job {
			return results[a].job < results[b].job
		}
		return results[a].shard < results[b].shard
	})
	failRe := regexp.MustCompile(`VERIF-FAIL sub=(\S+) sig="((?:[^"\\]|\\.)*)" replay=(\S+)`)
	seenFail := map[string]bool{}
	for _, r := range results {
		if r.stats != nil {
			s := r.stats
			merged.Evaluations += s.Evaluations
			merged.Inconclusive += s.Inconclusive
			for k := range s.NonTrivial {
				merged.NonTrivial[k] = true
			}
			addMap(merged.Classes, s.Classes)
			addMap(merged.Discards, s.Discards)
			addMap(merged.Gates, s.Gates)
			addMap(merged.KnownHits, s.KnownHits)
			addMap(merged.Extra, s.Extra)
			for k, v := range s.Exhaustive {
				if v {
					merged.Exhaustive[k] = true
				}
			}
			for _, smp := range s.Samples {
				if len(merged.Samples) < 6 {
					merged.Samples = append(merged.Samples, smp)
				}
			}
		}
		if r.exit != 0 {
			ms := failRe.FindAllStringSubmatch(r.log, -1)
			if len(ms) == 0 {
				if r.timedOut {
					cannot = append(cannot, fmt.Sprintf("%s shard %d timed out", r.job, r.shard))
				} else {
					cannot = append(cannot, fmt.Sprintf("%s shard %d exited %d without a verdict (see %s)", r.job, r.shard, r.exit, filepath.Join(outDir, fmt.Sprintf("%s-%d.log", r.job, r.shard))))
				}
				continue
			}
			for _, m := range ms {
				key := m[1] + "|" + m[2]
				if seenFail[key] {
					continue
				}
				seenFail[key] = true
				// copy the replay to a stable name
				dst := filepath.Join(outDir, fmt.Sprintf("replay-%s-%d.json", sanitize(m[1]), len(violations)))
				if b, err := os.ReadFile(m[3]); err == nil {
					os.WriteFile(dst, b, 0o644)
				} else {
					dst = m[3]
				}
				violations = append(violations, dst)
				fmt.Printf("failure: sub=%s sig=%q\n", m[1], m[2])
			}
		}
	}
	for kid, n := range merged.KnownHits {
		found := false
		for _, l := range knownLines {
			if strings.Contains(l, " "+kid+":") {
				found = true
			}
		}
		if !found {
			for _, k := range known {
				if k.ID == kid {
					knownLines = append(knownLines, fmt.Sprintf("KNOWN-FINDING: property=%s %s: %s (met %d times by the search)", id, k.ID, k.What, n))
				}
			}
		}
	}

	wall := time.Since(start).Seconds()
	writeEvidence(cfg, tier, seed, &merged, wall, len(violations), known, knownLines)

	sort.Strings(knownLines)
	for _, l := range knownLines {
		fmt.Println(l)
	}
	fmt.Printf("%s tier=%s seed=%d evaluations=%d nontrivial=%d wall=%.1fs\n", id, tier, seed, merged.Evaluations, len(merged.NonTrivial), wall)
	if len(violations) > 0 {
		for _, v := range violations {
			fmt.Printf("VIOLATION property=%s replay=%s\n", id, v)
		}
		os.Exit(1)
	}
	if len(cannot) > 0 {
		for _, c := range cannot {
			fmt.Println("CANNOT-JUDGE:", c)
		}
		os.Exit(2)
	}
	if merged.Evaluations == 0 {
		die2("no evaluations recorded")
	}
	os.Exit(0)
}

func addMap(dst, src map[string]int) {
	for k, v := range src {
		dst[k] += v
	}
}

func sanitize(s string) string {
	return regexp.MustCompile(`[^A-Za-z0-9_.-]+`).ReplaceAllString(s, "_")
}

func runTest(baseEnv []string, bin, outDir, job string, shard, shards int, pattern string, checks int, rseed int64, extra []string, timeout time.Duration) (procResult, error) {
	statsPath := filepath.Join(outDir, fmt.Sprintf("stats-%s-%d.json", job, shard))
	os.Remove(statsPath)
	args := append([]string{"-test.run", pattern, "-test.timeout", "0", "-test.count", "1", "-test.v"}, coverArgs...)
	if checks > 0 {
		args = append(args, "-rapid.checks", strconv.Itoa(checks), "-rapid.seed", strconv.FormatInt(rseed, 10), "-rapid.nofailfile")
	}
	cmd := exec.Command(bin, args...)
	cmd.Dir = outDir
	cmd.Env = append(append([]string{}, baseEnv...), "VERIF_STATS="+statsPath, fmt.Sprintf("VERIF_SHARD=%d/%d", shard, shards), "VERIF_JOB="+job)
	cmd.Env = append(cmd.Env, extra...)
	var buf bytes.Buffer
	cmd.Stdout = &buf
	cmd.Stderr = &buf
	res := procResult{job: job, shard: shard}
	if err := cmd.Start(); err != nil {
		res.exit = 2
		res.log = err.Error()
		return res, err
	}
	done := make(chan error, 1)
	go func() { done <- cmd.Wait() }()
	select {
	case err := <-done:
		if err != nil {
			res.exit = 1
			if ee, ok := err.(*exec.ExitError); ok {
				res.exit = ee.ExitCode()
			}
		}
	case <-time.After(timeout):
		cmd.Process.Kill()
		<-done
		res.exit = 2
		res.timedOut = true
	}
	res.log = buf.String()
	os.WriteFile(filepath.Join(outDir, fmt.Sprintf("%s-%d.log", job, shard)), buf.Bytes(), 0o644)
	if b, err := os.ReadFile(statsPath); err == nil {
		var s pk.Stats
		if json.Unmarshal(b, &s) == nil {
			res.stats = &s
		}
	}
	return res, nil
}

func loadKnown(id string) []pk.Known {
	b, err := os.ReadFile(filepath.Join(root, "known_findings.json"))
	if err != nil {
		return nil
	}
	var all struct {
		Findings []pk.Known `json:"findings"`
	}
	if err := json.Unmarshal(b, &all); err != nil {
		die2("known_findings.json: %v", err)
	}
	var out []pk.Known
	for _, k := range all.Findings {
		if k.Property == id {
			out = append(out, k)
		}
	}
	return out
}

func writeEvidence(cfg PropCfg, tier string, seed int64, m *pk.Stats, wall float64, violations int, known []pk.Known, knownLines []string) {
	samples := []any{}
	for _, s := range m.Samples {
		var v any
		if json.Unmarshal(s, &v) == nil {
			samples = append(samples, v)
		}
	}
	exh := false
	var exhSubs []string
	for k, v := range m.Exhaustive {
		if v {
			exhSubs = append(exhSubs, k)
		}
	}
	sort.Strings(exhSubs)
	exh = len(exhSubs) > 0 // the named table sub-checks enumerated their finite space completely
	cov := map[string]any{
		"evaluations":          m.Evaluations,
		"distinct_nontrivial":  len(m.NonTrivial),
		"rule":                 cfg.Rule,
		"samples":              samples,
		"classes":              m.Classes,
		"discards":             m.Discards,
		"gates_redirected":     m.Gates,
		"known_finding_hits":   m.KnownHits,
		"inconclusive":         m.Inconclusive,
		"counters":             m.Extra,
		"exhaustive":           exh,
		"exhaustive_subchecks": exhSubs,
	}
	if cfg.Level == "translation_validation" {
		cov["programs"] = m.Extra["programs"]
		cov["disagreements_checked"] = m.Extra["comparisons"]
	}
	var kf []string
	for _, k := range known {
		kf = append(kf, fmt.Sprintf("%s [%s] %s", k.ID, k.Status, k.What))
	}
	cov["known_findings"] = kf
	ev := map[string]any{
		"property_id": cfg.ID,
		"tier":        tier,
		"seed":        seed,
		"level":       cfg.Level,
		"coverage":    cov,
		"assumptions": cfg.Assumptions,
		"wall_s":      wall,
		"violations":  violations,
	}
	b, _ := json.MarshalIndent(ev, "", " ")
	os.MkdirAll(filepath.Join(root, "evidence"), 0o755)
	os.WriteFile(filepath.Join(root, "evidence", cfg.ID+".json"), b, 0o644)
}

func runFuzz(env, baseEnv []string, cfg PropCfg, j Job, outDir string) procResult {
	res := procResult{job: "fuzz-" + j.Fuzz}
	corpus := filepath.Join(outDir, "fuzzcache-"+j.Fuzz)
	os.MkdirAll(corpus, 0o755)
	statsPath := filepath.Join(outDir, "stats-fuzz-"+j.Fuzz+".json")
	cmd := exec.Command("go", "test", "./props/"+cfg.Pkg, "-run", "^$", "-fuzz", "^"+j.Fuzz+"$", "-fuzztime", fmt.Sprintf("%ds", j.FuzzSec),
		"-test.fuzzcachedir", corpus)
	cmd.Dir = root
	cmd.Env = append(append([]string{}, baseEnv...), "VERIF_STATS="+statsPath, "VERIF_FUZZ=1")
	var buf bytes.Buffer
	cmd.Stdout = &buf
	cmd.Stderr = &buf
	err := cmd.Run()
	res.log = buf.String()
	os.WriteFile(filepath.Join(outDir, "fuzz-"+j.Fuzz+".log"), buf.Bytes(), 0o644)
	execs := 0
	if m := regexp.MustCompile(`execs: (\d+)`).FindAllStringSubmatch(res.log, -1); len(m) > 0 {
		execs, _ = strconv.Atoi(m[len(m)-1][1])
	}
	res.stats = &pk.Stats{Evaluations: execs, Extra: map[string]int{"fuzz_execs_" + j.Fuzz: execs}}
	if err != nil {
		res.exit = 1
		// a crasher was written under testdata/fuzz/<target>/; turn it into a replay reference
		if m := regexp.MustCompile(`Failing input written to (\S+)`).FindStringSubmatch(res.log); m != nil {
			src := filepath.Join(root, "props", cfg.Pkg, m[1])
			dst := filepath.Join(outDir, "fuzz-crasher-"+j.Fuzz)
			if b, e := os.ReadFile(src); e == nil {
				os.WriteFile(dst, b, 0o644)
				os.Remove(src)
			}
			res.log += fmt.Sprintf("\nVERIF-FAIL sub=%s sig=%q replay=%s\n", "fuzz:"+j.Fuzz, "fuzz-crasher", dst)
		}
	}
	return res
}
