// hsrun: probing tool. Runs Homescript files through the sandbox and prints the response.
package main

import (
	"encoding/json"
	"flag"
	"fmt"
	"os"
	"path/filepath"
	"strings"

	"verif/sb"
)

func main() {
	backends := flag.String("b", "vm,tree", "backends")
	op := flag.String("op", "run", "op")
	cancelAt := flag.Int64("k", 0, "cancel at poll k")
	pollCap := flag.Int64("cap", 0, "poll cap")
	call := flag.Uint("call", 500, "call limit")
	stack := flag.Uint("stack", 5000, "stack limit")
	mem := flag.Uint("mem", 50000, "mem limit")
	expr := flag.String("e", "", "program text for module main (instead of files)")
	short := flag.Bool("s", false, "short output")
	opt := flag.Bool("opt", false, "optimize")
	kind := flag.String("kind", "analyzed", "print kind")
	ann := flag.Bool("ann", false, "evaluate compiled annotations")
	flag.Parse()
	req := &sb.Request{Op: *op, Modules: map[string]string{}, Backends: strings.Split(*backends, ","),
		Limits: sb.Limits{Call: *call, Stack: *stack, Mem: *mem, TreeCall: *call}, CancelAt: *cancelAt, PollCap: *pollCap, WantRender: true, Optimize: *opt, PrintKind: *kind, Annotations: *ann}
	if *expr != "" {
		req.Modules["main"] = *expr
		req.Entry = "main"
	}
	for i, f := range flag.Args() {
		b, err := os.ReadFile(f)
		if err != nil {
			panic(err)
		}
		name := strings.TrimSuffix(filepath.Base(f), ".hms")
		req.Modules[name] = string(b)
		if i == 0 && req.Entry == "" {
			req.Entry = name
		}
	}
	p := sb.NewPool()
	defer p.Close()
	resp := p.Exec(req)
	if *short {
		if resp.Crash != "" {
			fmt.Println("CRASH:", resp.Crash)
			fmt.Println(resp.CrashLog)
		}
		if resp.Hang {
			fmt.Println("HANG")
		}
		for _, d := range resp.SyntaxErrors {
			fmt.Printf("syntax: %s @%d:%d\n", d.Message, d.Span.Start.Line, d.Span.Start.Column)
		}
		for _, d := range resp.Diags {
			fmt.Printf("%s: %s @%s:%d:%d\n", d.Level, d.Message, d.Span.Filename, d.Span.Start.Line, d.Span.Start.Column)
		}
		for _, r := range resp.Runs {
			fmt.Printf("[%s] outcome=%s kind=%s msg=%q polls=%d residue=%+v\n", r.Backend, r.Outcome.Class, r.Outcome.Kind, r.Outcome.Message, r.Polls, r.Residue)
			fmt.Printf("  writes: %q\n", strings.Join(r.Writes, ""))
			if len(r.Annotations) > 0 {
				fmt.Printf("  annotations: %q\n", r.Annotations)
			}
			if len(r.Triggers) > 0 {
				fmt.Printf("  triggers: %+v\n", r.Triggers)
			}
			if len(r.HostTypeErrors) > 0 {
				fmt.Printf("  hostTypeErrors: %v\n", r.HostTypeErrors)
			}
		}
		for n, t := range resp.Texts {
			fmt.Printf("--- %s\n%s\n", n, t)
		}
		return
	}
	b, _ := json.MarshalIndent(resp, "", " ")
	fmt.Println(string(b))
}
