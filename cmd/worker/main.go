// Sandbox worker: executes requests against the repository's code. Protocol: length-prefixed
// JSON on inherited fds 3 (requests) and 4 (responses); stdout/stderr are left to the
// repository's own debug printing and to Go's panic reports.
package main

import (
	"bufio"
	"encoding/binary"
	"encoding/json"
	"io"
	"os"
	"runtime/coverage"
	"runtime/debug"

	"verif/hostkit"
	"verif/sb"
)

func main() {
	// Runaway recursion in the repository's code ends as "stack exceeds limit" either way; a quarter of Go's
	// default limit (1 GB) gets there sooner and keeps sixteen such workers from exhausting the machine.
	debug.SetMaxStack(256 << 20)
	in := bufio.NewReader(os.NewFile(3, "req"))
	out := os.NewFile(4, "resp")
	// Repository code prints debugging text to stdout; keep it out of the way.
	devnull, _ := os.OpenFile(os.DevNull, os.O_WRONLY, 0)
	if devnull != nil {
		os.Stdout = devnull
	}
	// Coverage measurement (tools/coverage.sh): workers are killed, never exit, so a worker built with
	// -cover writes its counters itself every few hundred requests. Without -cover the calls fail quietly.
	covDir := os.Getenv("VERIF_COVDIR")
	served := 0
	if covDir != "" {
		os.MkdirAll(covDir, 0o755)
		if err := coverage.WriteMetaDir(covDir); err != nil {
			os.Stderr.WriteString("coverage: " + err.Error() + "\n")
		}
	}
	for {
		var n uint32
		if err := binary.Read(in, binary.LittleEndian, &n); err != nil {
			if covDir != "" {
				coverage.WriteCountersDir(covDir)
			}
			return
		}
		if served++; covDir != "" && served%300 == 0 {
			coverage.WriteCountersDir(covDir)
			coverage.ClearCounters()
		}
		buf := make([]byte, n)
		if _, err := io.ReadFull(in, buf); err != nil {
			return
		}
		var req sb.Request
		resp := &sb.Response{}
		if err := json.Unmarshal(buf, &req); err != nil {
			resp.Err = "bad request: " + err.Error()
		} else {
			resp = hostkit.Execute(&req)
		}
		b, err := json.Marshal(resp)
		if err != nil {
			b, _ = json.Marshal(&sb.Response{ID: req.ID, Err: "marshal: " + err.Error()})
		}
		var hdr [4]byte
		binary.LittleEndian.PutUint32(hdr[:], uint32(len(b)))
		out.Write(hdr[:])
		out.Write(b)
	}
}
