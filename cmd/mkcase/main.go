// mkcase: builds a replay file (px.ProgCase) for program-level sub-checks from source files and a
// hand-written expectation. Used to commit minimal reproductions of findings.
package main

import (
	"encoding/json"
	"flag"
	"fmt"
	"os"
	"path/filepath"
	"strings"

	"verif/hs"
	"verif/pk"
	"verif/px"
	"verif/sb"
)

func main() {
	prop := flag.String("prop", "C01", "property")
	sub := flag.String("sub", "program", "sub-check")
	out := flag.String("o", "", "output file")
	writes := flag.String("w", "", "expected output text (Go-escaped); one write per line")
	outcome := flag.String("outcome", "ok", "expected outcome class: ok|throw|fatal")
	kind := flag.String("kind", "", "fatal kind")
	msg := flag.String("msg", "", "throw message")
	note := flag.String("note", "", "note")
	sig := flag.String("sig", "", "signature")
	trig := flag.String("trig", "", "expected trigger registrations: callback:trigger:arg,arg;...")
	flag.Parse()
	c := px.ProgCase{Modules: map[string]string{}, Limits: sb.DefaultLimits(), Note: *note}
	for i, f := range flag.Args() {
		b, err := os.ReadFile(f)
		if err != nil {
			panic(err)
		}
		name := strings.TrimSuffix(filepath.Base(f), ".hms")
		c.Modules[name] = string(b)
		if i == 0 {
			c.Entry = name
		}
	}
	w := strings.NewReplacer(`\n`, "\n", `\t`, "\t", `\\`, `\`).Replace(*writes)
	exp := &px.Exp{Outcome: hs.Outcome{Class: *outcome, Kind: *kind, Message: *msg}}
	for _, l := range strings.SplitAfter(w, "\n") {
		if l != "" {
			exp.Writes = append(exp.Writes, l)
		}
	}
	if *trig != "" {
		for _, t := range strings.Split(*trig, ";") {
			p := strings.SplitN(t, ":", 3)
			tc := hs.TriggerCall{Callback: p[0], Trigger: p[1]}
			if len(p) > 2 && p[2] != "" {
				tc.Args = strings.Split(p[2], ",")
			}
			exp.Triggers = append(exp.Triggers, tc)
		}
	}
	c.Expect = exp
	cb, _ := json.Marshal(c)
	rf := pk.ReplayFile{Property: *prop, Sub: *sub, Sig: *sig, Msg: *note, Case: cb}
	b, _ := json.MarshalIndent(rf, "", " ")
	if *out == "" {
		fmt.Println(string(b))
		return
	}
	os.MkdirAll(filepath.Dir(*out), 0o755)
	os.WriteFile(*out, b, 0o644)
}
