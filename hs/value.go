package hs

import (
	"encoding/json"
	"fmt"
	"math"
	"sort"
	"strconv"
	"strings"
)

// Value is a model value. Lists and objects are heap objects (pointer identity = sharing);
// all other values are immutable scalars.
type Value interface{ Kind() Kind }

type IntV int64
type FloatV float64
type BoolV bool
type StrV string
type NullV struct{}
type RangeV struct {
	Start, End int64
	Incl       bool
}
type ListV struct{ Elems []Value }
type ObjV struct {
	Any  bool // any-object
	Keys []string
	M    map[string]Value
}
type OptV struct{ Inner Value } // Inner == nil → none
type FnV struct {
	Name string // top-level function name, or "" for a lambda
	Lam  *FnLit
	Mod  string
}

func (IntV) Kind() Kind   { return KInt }
func (FloatV) Kind() Kind { return KFloat }
func (BoolV) Kind() Kind  { return KBool }
func (StrV) Kind() Kind   { return KStr }
func (NullV) Kind() Kind  { return KNull }
func (RangeV) Kind() Kind { return KRange }
func (*ListV) Kind() Kind { return KList }
func (o *ObjV) Kind() Kind {
	if o.Any {
		return KAnyObj
	}
	return KObj
}
func (OptV) Kind() Kind { return KOpt }
func (*FnV) Kind() Kind { return KFn }

func NewObj(any bool) *ObjV { return &ObjV{Any: any, M: map[string]Value{}} }
func (o *ObjV) Set(k string, v Value) {
	if _, ok := o.M[k]; !ok {
		o.Keys = append(o.Keys, k)
	}
	o.M[k] = v
}
func (o *ObjV) SortedKeys() []string {
	ks := append([]string(nil), o.Keys...)
	sort.Strings(ks)
	return ks
}

// FormatFloat follows Go's fmt.Sprint for float64 (README: "matches the float64 Go specification").
func FormatFloat(f float64) string { return fmt.Sprint(f) }

// Display renders a value the way print/println/to_string document it.
// Objects render their fields in sorted key order (field order of display is C14's subject,
// comparisons normalise).
func Display(v Value) string {
	switch v := v.(type) {
	case IntV:
		return strconv.FormatInt(int64(v), 10)
	case FloatV:
		return FormatFloat(float64(v))
	case BoolV:
		if v {
			return "true"
		}
		return "false"
	case StrV:
		return string(v)
	case NullV:
		return "null"
	case RangeV:
		if v.Incl {
			return fmt.Sprintf("%d..=%d", v.Start, v.End)
		}
		return fmt.Sprintf("%d..%d", v.Start, v.End)
	case *ListV:
		parts := make([]string, len(v.Elems))
		for i, e := range v.Elems {
			parts[i] = Display(e)
		}
		return "[" + strings.Join(parts, ", ") + "]"
	case OptV:
		if v.Inner == nil {
			return "none"
		}
		return "Some(" + Display(v.Inner) + ")"
	case *ObjV:
		parts := []string{}
		for _, k := range v.SortedKeys() {
			parts = append(parts, k+": "+Display(v.M[k]))
		}
		return "{" + strings.Join(parts, ", ") + "}"
	case *FnV:
		return "<function>"
	}
	return "<?>"
}

// Equal is structural equality of model values.
func Equal(a, b Value) bool {
	if a == nil || b == nil {
		return a == nil && b == nil
	}
	if a.Kind() != b.Kind() {
		return false
	}
	switch a := a.(type) {
	case IntV, BoolV, StrV, NullV, RangeV:
		return a == b
	case FloatV:
		return float64(a) == float64(b.(FloatV))
	case *ListV:
		bl := b.(*ListV)
		if len(a.Elems) != len(bl.Elems) {
			return false
		}
		for i := range a.Elems {
			if !Equal(a.Elems[i], bl.Elems[i]) {
				return false
			}
		}
		return true
	case *ObjV:
		bo := b.(*ObjV)
		if len(a.M) != len(bo.M) {
			return false
		}
		for k, av := range a.M {
			bv, ok := bo.M[k]
			if !ok || !Equal(av, bv) {
				return false
			}
		}
		return true
	case OptV:
		return Equal(a.Inner, b.(OptV).Inner)
	case *FnV:
		return a == b.(*FnV)
	}
	return false
}

// Same: the two values are the same value (the harness comparing an observed with an expected value). Unlike the
// language's `==` (Equal), not-a-number is the same as not-a-number.
func Same(a, b Value) bool {
	if a == nil || b == nil {
		return a == nil && b == nil
	}
	if a.Kind() != b.Kind() {
		return false
	}
	switch a := a.(type) {
	case IntV, BoolV, StrV, NullV, RangeV:
		return a == b
	case FloatV:
		x, y := float64(a), float64(b.(FloatV))
		return x == y || (x != x && y != y)
	case *ListV:
		bl := b.(*ListV)
		if len(a.Elems) != len(bl.Elems) {
			return false
		}
		for i := range a.Elems {
			if !Same(a.Elems[i], bl.Elems[i]) {
				return false
			}
		}
		return true
	case *ObjV:
		bo := b.(*ObjV)
		if len(a.M) != len(bo.M) {
			return false
		}
		for k, av := range a.M {
			bv, ok := bo.M[k]
			if !ok || !Same(av, bv) {
				return false
			}
		}
		return true
	case OptV:
		return Same(a.Inner, b.(OptV).Inner)
	case *FnV:
		return a == b.(*FnV)
	}
	return false
}

// DeepCopy copies heap structure (used for clones and snapshots).
func DeepCopy(v Value) Value {
	switch v := v.(type) {
	case *ListV:
		n := &ListV{Elems: make([]Value, len(v.Elems))}
		for i, e := range v.Elems {
			n.Elems[i] = DeepCopy(e)
		}
		return n
	case *ObjV:
		n := NewObj(v.Any)
		for _, k := range v.Keys {
			n.Set(k, DeepCopy(v.M[k]))
		}
		return n
	case OptV:
		if v.Inner == nil {
			return v
		}
		return OptV{DeepCopy(v.Inner)}
	}
	return v
}

// Zero is the zero value of a type (singletons the host does not provide).
func Zero(t Type) Value {
	switch t.K {
	case KInt:
		return IntV(0)
	case KFloat:
		return FloatV(0)
	case KBool:
		return BoolV(false)
	case KStr:
		return StrV("")
	case KNull:
		return NullV{}
	case KRange:
		return RangeV{}
	case KList:
		return &ListV{}
	case KAnyObj:
		return NewObj(true)
	case KObj:
		o := NewObj(false)
		for _, f := range t.Fields {
			o.Set(f.Name, Zero(f.T))
		}
		return o
	case KOpt:
		return OptV{}
	}
	panic("no zero value for " + t.Canon())
}

// Conforms reports whether v is (deeply) a value of type t, with no conversion.
func Conforms(v Value, t Type) bool {
	if v == nil {
		return false
	}
	switch t.K {
	case KAny:
		return true
	case KInt, KFloat, KBool, KStr, KNull, KRange, KFn:
		return v.Kind() == t.K
	case KList:
		l, ok := v.(*ListV)
		if !ok {
			return false
		}
		for _, e := range l.Elems {
			if !Conforms(e, *t.Elem) {
				return false
			}
		}
		return true
	case KOpt:
		o, ok := v.(OptV)
		if !ok {
			return false
		}
		return o.Inner == nil || Conforms(o.Inner, *t.Elem)
	case KAnyObj:
		o, ok := v.(*ObjV)
		return ok && o.Any
	case KObj:
		o, ok := v.(*ObjV)
		if !ok || o.Any || len(o.M) != len(t.Fields) {
			return false
		}
		for _, f := range t.Fields {
			fv, ok := o.M[f.Name]
			if !ok || !Conforms(fv, f.T) {
				return false
			}
		}
		return true
	}
	return false
}

// ---------------------------------------------------------------------------------------------
// JSON transport encoding (tagged; ints and floats as strings to stay exact).

type wireV struct {
	K string            `json:"k"`
	V string            `json:"v,omitempty"`
	L []json.RawMessage `json:"l,omitempty"`
	O []wireKV          `json:"o,omitempty"`
	I json.RawMessage   `json:"i,omitempty"`
	A bool              `json:"a,omitempty"`
}
type wireKV struct {
	K string          `json:"k"`
	V json.RawMessage `json:"v"`
}

func MarshalValue(v Value) json.RawMessage {
	var w wireV
	switch v := v.(type) {
	case IntV:
		w = wireV{K: "int", V: strconv.FormatInt(int64(v), 10)}
	case FloatV:
		w = wireV{K: "float", V: strconv.FormatFloat(float64(v), 'g', -1, 64)}
	case BoolV:
		w = wireV{K: "bool", V: strconv.FormatBool(bool(v))}
	case StrV:
		w = wireV{K: "str", V: string(v)}
	case NullV:
		w = wireV{K: "null"}
	case RangeV:
		w = wireV{K: "range", V: fmt.Sprintf("%d,%d", v.Start, v.End), A: v.Incl}
	case *ListV:
		w = wireV{K: "list", L: []json.RawMessage{}}
		for _, e := range v.Elems {
			w.L = append(w.L, MarshalValue(e))
		}
	case *ObjV:
		w = wireV{K: "obj", A: v.Any, O: []wireKV{}}
		for _, k := range v.Keys {
			w.O = append(w.O, wireKV{k, MarshalValue(v.M[k])})
		}
	case OptV:
		w = wireV{K: "opt"}
		if v.Inner != nil {
			w.I = MarshalValue(v.Inner)
		}
	case *FnV:
		w = wireV{K: "fn", V: v.Name}
	case nil:
		return json.RawMessage("null")
	default:
		panic(fmt.Sprintf("MarshalValue: %T", v))
	}
	b, err := json.Marshal(w)
	if err != nil {
		panic(err)
	}
	return b
}

func UnmarshalValue(raw json.RawMessage) (Value, error) {
	if len(raw) == 0 || string(raw) == "null" {
		return nil, nil
	}
	var w wireV
	if err := json.Unmarshal(raw, &w); err != nil {
		return nil, err
	}
	switch w.K {
	case "int":
		i, err := strconv.ParseInt(w.V, 10, 64)
		return IntV(i), err
	case "float":
		f, err := strconv.ParseFloat(w.V, 64)
		return FloatV(f), err
	case "bool":
		return BoolV(w.V == "true"), nil
	case "str":
		return StrV(w.V), nil
	case "null":
		return NullV{}, nil
	case "range":
		var a, b int64
		if _, err := fmt.Sscanf(w.V, "%d,%d", &a, &b); err != nil {
			return nil, err
		}
		return RangeV{a, b, w.A}, nil
	case "list":
		l := &ListV{}
		for _, e := range w.L {
			ev, err := UnmarshalValue(e)
			if err != nil {
				return nil, err
			}
			l.Elems = append(l.Elems, ev)
		}
		return l, nil
	case "obj":
		o := NewObj(w.A)
		for _, kv := range w.O {
			ev, err := UnmarshalValue(kv.V)
			if err != nil {
				return nil, err
			}
			o.Set(kv.K, ev)
		}
		return o, nil
	case "opt":
		if len(w.I) == 0 {
			return OptV{}, nil
		}
		iv, err := UnmarshalValue(w.I)
		return OptV{iv}, err
	case "fn":
		return &FnV{Name: w.V}, nil
	}
	return nil, fmt.Errorf("bad wire value kind %q", w.K)
}

// WV wraps a Value for embedding in JSON structs.
type WV struct{ V Value }

func (w WV) MarshalJSON() ([]byte, error) { return MarshalValue(w.V), nil }
func (w *WV) UnmarshalJSON(b []byte) error {
	v, err := UnmarshalValue(b)
	w.V = v
	return err
}

func IsFinite(f float64) bool { return !math.IsNaN(f) && !math.IsInf(f, 0) }

// QuoteStr renders a string literal in source syntax using only escapes the grammar defines.
func QuoteStr(s string) string {
	var b strings.Builder
	b.WriteByte('"')
	for _, r := range s {
		switch r {
		case '"':
			b.WriteString(`\"`)
		case '\\':
			b.WriteString(`\\`)
		case '\n':
			b.WriteString(`\n`)
		case '\r':
			b.WriteString(`\r`)
		case '\t':
			b.WriteString(`\t`)
		case '\b':
			b.WriteString(`\b`)
		default:
			if r < 0x20 || r == 0x7f {
				fmt.Fprintf(&b, `\x%02x`, r)
			} else {
				b.WriteRune(r)
			}
		}
	}
	b.WriteByte('"')
	return b.String()
}
