package hs

import (
	"fmt"
	"math"
	"sort"
	"strings"
	"unicode/utf8"
)

// Reference semantics (definitional evaluator) for the model language, written from the
// statement of property C01/C11 and the README — never from the implementation.

type Outcome struct {
	Class   string // "ok" | "throw" (uncaught exception) | "fatal" | "unsupported" | "fuel"
	Kind    string // fatal kind: ValueError | IndexOutOfBounds | StackOverFlow | ...
	Message string // uncaught throw message
}

type TriggerCall struct {
	Callback, Trigger string
	Args              []string
}

type Trace struct {
	Writes     []string
	Triggers   []TriggerCall
	Singletons []string // "module/$Name" loads, in order
	Outcome    Outcome
	Steps      int
	Feat       map[string]int // executed-feature counters (classification)
}

type ctrlKind int

const (
	cNone ctrlKind = iota
	cBreak
	cContinue
	cReturn
	cThrow
	cFatal
	cAbort // unsupported / fuel
)

type ctrl struct {
	k    ctrlKind
	val  Value  // return value
	msg  string // throw message / fatal kind
	line int    // throw site marker (unused in model)
	site string
}

type binding struct{ v Value }

type env struct {
	vars   map[string]*binding
	parent *env
}

func (e *env) lookup(n string) *binding {
	for s := e; s != nil; s = s.parent {
		if b, ok := s.vars[n]; ok {
			return b
		}
	}
	return nil
}
func (e *env) child() *env { return &env{vars: map[string]*binding{}, parent: e} }
func (e *env) def(n string, v Value) {
	e.vars[n] = &binding{v}
}

type modState struct {
	m          *Module
	globals    *env
	singletons map[string]*binding
}

// HostFn models a typed host builtin imported from module "host".
type HostFn func(ev *Evaluator, args []Value) (Value, *ctrl)

type Evaluator struct {
	P          *Program
	Tr         *Trace
	mods       map[string]*modState
	HostSingle map[string]Value // "module/$Name" or "$Name" → host-provided value
	Fuel       int
	CallLimit  int // max call depth; 0 = unlimited
	depth      int
	AnyVals    []Value // values served by host.any_val(i)
	curMod     *modState
	// pendingSlot counts operands that are already evaluated, still waiting for their operator or
	// call, and whose expression may denote a container slot itself (element / field read). A
	// slot write while it is > 0 is recorded as feature "hazard:slot-operand" (used only to
	// exclude the trigger of an open finding; it does not change evaluation).
	pendingSlot int
	stale       bool // an assignment target disappeared while its right-hand side ran
	pendingVar  int // same for operands that may denote a variable's cell (interpreter aliasing)
}

// yieldsVar: may the value of e be a variable's cell itself?
func yieldsVar(e Expr) bool {
	switch e := e.(type) {
	case Ident, SingletonRef:
		return true
	case Call:
		return true
	case Paren:
		return yieldsVar(e.X)
	case *Block:
		return e.Tail != nil && yieldsVar(e.Tail)
	case *If:
		if e.Then.Tail != nil && yieldsVar(e.Then.Tail) {
			return true
		}
		return e.Else != nil && yieldsVar(e.Else)
	case *Match:
		for _, a := range e.Arms {
			if yieldsVar(a.Body) {
				return true
			}
		}
	case *Try:
		return yieldsVar(e.Body) || yieldsVar(e.Catch)
	}
	return false
}

// yieldsSlot: may the value of e be the container slot itself (not a freshly computed value)?
func yieldsSlot(e Expr) bool {
	switch e := e.(type) {
	case Index:
		return true
	case Member:
		return true
	case Call:
		return true
	case Paren:
		return yieldsSlot(e.X)
	case *Block:
		return e.Tail != nil && yieldsSlot(e.Tail)
	case *If:
		if e.Then.Tail != nil && yieldsSlot(e.Then.Tail) {
			return true
		}
		return e.Else != nil && yieldsSlot(e.Else)
	case *Match:
		for _, a := range e.Arms {
			if yieldsSlot(a.Body) {
				return true
			}
		}
	case *Try:
		return yieldsSlot(e.Body) || yieldsSlot(e.Catch)
	}
	return false
}

func NewEvaluator(p *Program) *Evaluator {
	return &Evaluator{P: p, Tr: &Trace{Feat: map[string]int{}}, mods: map[string]*modState{}, Fuel: 2_000_000, HostSingle: map[string]Value{}}
}

func (ev *Evaluator) feat(s string) { ev.Tr.Feat[s]++ }

func (ev *Evaluator) abort(why string) *ctrl { return &ctrl{k: cAbort, msg: why} }
func fatal(kind string) *ctrl               { return &ctrl{k: cFatal, msg: kind} }
func throw(msg string) *ctrl                { return &ctrl{k: cThrow, msg: msg} }

// Init initialises all modules reachable from the entry (imports first), globals once.
func (ev *Evaluator) Init() *ctrl {
	_, c := ev.initModule(ev.P.Entry, map[string]bool{})
	return c
}

func (ev *Evaluator) initModule(name string, visiting map[string]bool) (*modState, *ctrl) {
	if ms, ok := ev.mods[name]; ok {
		return ms, nil
	}
	m := ev.P.Mod(name)
	if m == nil {
		return nil, ev.abort("unknown module " + name)
	}
	if visiting[name] {
		return nil, ev.abort("cyclic import")
	}
	visiting[name] = true
	ms := &modState{m: m, globals: &env{vars: map[string]*binding{}}, singletons: map[string]*binding{}}
	ev.mods[name] = ms
	for _, s := range m.Singletons {
		key := name + "/" + s.Name
		ev.Tr.Singletons = append(ev.Tr.Singletons, key)
		if hv, ok := ev.HostSingle[key]; ok {
			ms.singletons[s.Name] = &binding{DeepCopy(hv)}
		} else if hv, ok := ev.HostSingle[s.Name]; ok {
			ms.singletons[s.Name] = &binding{DeepCopy(hv)}
		} else {
			ms.singletons[s.Name] = &binding{Zero(s.T)}
		}
	}
	for _, im := range m.Imports {
		if ev.P.Mod(im.From) == nil {
			continue // host module
		}
		oms, c := ev.initModule(im.From, visiting)
		if c != nil {
			return nil, c
		}
		for _, it := range im.Items {
			if it.Kind != "" {
				continue
			}
			if f := oms.m.Fn(it.Name); f != nil {
				ms.globals.def(it.Name, &FnV{Name: it.Name, Mod: im.From})
			} else if b := oms.globals.lookup(it.Name); b != nil {
				ms.globals.vars[it.Name] = b // shared binding: the defining module's global
			}
		}
	}
	for i := range m.Fns {
		ms.globals.def(m.Fns[i].Name, &FnV{Name: m.Fns[i].Name, Mod: name})
	}
	saved := ev.curMod
	ev.curMod = ms
	defer func() { ev.curMod = saved }()
	for _, g := range m.Globals {
		v, c := ev.eval(g.X, ms.globals)
		if c != nil {
			return nil, c
		}
		ms.globals.def(g.Name, v)
	}
	delete(visiting, name)
	return ms, nil
}

// EvalConst evaluates a closed literal expression.
func (ev *Evaluator) EvalConst(x Expr) (Value, bool) {
	ev.curMod = &modState{m: &Module{Name: "m"}, globals: &env{vars: map[string]*binding{}}, singletons: map[string]*binding{}}
	v, c := ev.eval(x, ev.curMod.globals)
	return v, c == nil
}

// Run executes init + main and fills the trace outcome.
func (ev *Evaluator) Run() *Trace {
	c := ev.Init()
	if c == nil {
		_, c = ev.CallNamed(ev.P.Entry, "main", nil)
	}
	ev.finish(c)
	return ev.Tr
}

func (ev *Evaluator) finish(c *ctrl) {
	ev.Tr.Outcome = OutcomeOf(c)
}

func OutcomeOf(c *ctrl) Outcome {
	if c == nil {
		return Outcome{Class: "ok"}
	}
	switch c.k {
	case cThrow:
		return Outcome{Class: "throw", Message: c.msg}
	case cFatal:
		return Outcome{Class: "fatal", Kind: c.msg}
	case cAbort:
		if c.msg == "fuel" {
			return Outcome{Class: "fuel"}
		}
		return Outcome{Class: "unsupported", Message: c.msg}
	case cReturn:
		return Outcome{Class: "ok"}
	}
	return Outcome{Class: "unsupported", Message: fmt.Sprintf("stray control %d", c.k)}
}

// CallNamed invokes a top-level function (host invocation).
func (ev *Evaluator) CallNamed(mod, fn string, args []Value) (Value, *ctrl) {
	ms := ev.mods[mod]
	if ms == nil {
		return nil, ev.abort("module not initialised")
	}
	f := ms.m.Fn(fn)
	if f == nil {
		return nil, ev.abort("no function " + fn)
	}
	return ev.callDef(ms, f, args)
}

func (ev *Evaluator) callDef(ms *modState, f *FnDef, args []Value) (Value, *ctrl) {
	return ev.callBody(ms, ms.globals, f.Params, f.Body, args)
}

func (ev *Evaluator) callBody(ms *modState, parent *env, params []Param, body *Block, args []Value) (Value, *ctrl) {
	ev.depth++
	defer func() { ev.depth-- }()
	if ev.CallLimit > 0 && ev.depth > ev.CallLimit {
		return nil, fatal("StackOverFlow")
	}
	if ev.depth > 3000 {
		return nil, ev.abort("depth")
	}
	e := parent.child()
	ai := 0
	for _, p := range params {
		if p.Singleton != "" {
			b := ms.singletons[p.Singleton]
			if b == nil {
				return nil, ev.abort("unknown singleton " + p.Singleton)
			}
			ev.feat("singleton-param")
			e.vars[p.Name] = b
			continue
		}
		if ai >= len(args) {
			return nil, ev.abort("arity")
		}
		e.def(p.Name, args[ai])
		ai++
	}
	saved := ev.curMod
	ev.curMod = ms
	defer func() { ev.curMod = saved }()
	v, c := ev.block(body, e)
	if c != nil {
		if c.k == cReturn {
			return c.val, nil
		}
		return nil, c
	}
	return v, nil
}

func (ev *Evaluator) block(b *Block, parent *env) (Value, *ctrl) {
	e := parent.child()
	for _, s := range b.Stmts {
		if c := ev.stmt(s, e); c != nil {
			return nil, c
		}
	}
	if b.Tail != nil {
		return ev.eval(b.Tail, e)
	}
	return NullV{}, nil
}

func (ev *Evaluator) tick() *ctrl {
	ev.Tr.Steps++
	if ev.Tr.Steps > ev.Fuel {
		return ev.abort("fuel")
	}
	return nil
}

func (ev *Evaluator) stmt(s Stmt, e *env) *ctrl {
	if c := ev.tick(); c != nil {
		return c
	}
	switch s := s.(type) {
	case Let:
		v, c := ev.eval(s.X, e)
		if c != nil {
			return c
		}
		if s.Annot != nil && s.X.Type().K == KAny {
			cv, c := ev.castTo(v, *s.Annot, false)
			if c != nil {
				return c
			}
			v = cv
		}
		e.def(s.Name, v)
	case Return:
		if s.X == nil {
			return &ctrl{k: cReturn, val: NullV{}}
		}
		v, c := ev.eval(s.X, e)
		if c != nil {
			return c
		}
		return &ctrl{k: cReturn, val: v}
	case Break:
		return &ctrl{k: cBreak}
	case Continue:
		return &ctrl{k: cContinue}
	case Loop:
		for {
			if c := ev.tick(); c != nil {
				return c
			}
			ev.feat("loop-iter")
			_, c := ev.block(s.Body, e)
			if c != nil {
				if c.k == cBreak {
					break
				}
				if c.k == cContinue {
					continue
				}
				return c
			}
		}
	case While:
		for {
			if c := ev.tick(); c != nil {
				return c
			}
			cv, c := ev.eval(s.Cond, e)
			if c != nil {
				return c
			}
			if !bool(cv.(BoolV)) {
				break
			}
			ev.feat("loop-iter")
			_, c = ev.block(s.Body, e)
			if c != nil {
				if c.k == cBreak {
					break
				}
				if c.k == cContinue {
					continue
				}
				return c
			}
		}
	case For:
		it, c := ev.eval(s.Iter, e)
		if c != nil {
			return c
		}
		var items []Value
		switch it := it.(type) {
		case *ListV:
			items = append(items, it.Elems...) // snapshot
			ev.feat("for-list")
		case RangeV:
			items = rangeItems(it)
			if items == nil && it.Start != it.End {
				return ev.abort("huge range")
			}
			ev.feat("for-range")
		case StrV:
			for _, r := range string(it) {
				items = append(items, StrV(string(r)))
			}
			ev.feat("for-str")
		default:
			return ev.abort("for over " + it.Kind().String())
		}
		for _, x := range items {
			if c := ev.tick(); c != nil {
				return c
			}
			ev.feat("loop-iter")
			le := e.child()
			le.def(s.Var, x)
			_, c := ev.block(s.Body, le)
			if c != nil {
				if c.k == cBreak {
					break
				}
				if c.k == cContinue {
					continue
				}
				return c
			}
		}
	case ExprStmt:
		_, c := ev.eval(s.X, e)
		return c
	case TriggerStmt:
		args := make([]string, len(s.Args))
		for i, a := range s.Args {
			v, c := ev.eval(a, e)
			if c != nil {
				return c
			}
			args[i] = Display(v)
		}
		ev.feat("trigger")
		ev.Tr.Triggers = append(ev.Tr.Triggers, TriggerCall{s.Callback, s.Trigger, args})
	case TypeDef:
	default:
		return ev.abort(fmt.Sprintf("stmt %T", s))
	}
	return nil
}

func rangeItems(r RangeV) []Value {
	var items []Value
	n := r.End - r.Start
	if n < 0 {
		n = -n
	}
	if n > 100000 || n < 0 {
		return nil
	}
	if r.Start <= r.End {
		for i := r.Start; i < r.End; i++ {
			items = append(items, IntV(i))
		}
		if r.Incl {
			items = append(items, IntV(r.End))
		}
	} else {
		for i := r.Start; i > r.End; i-- {
			items = append(items, IntV(i))
		}
		if r.Incl {
			items = append(items, IntV(r.End))
		}
	}
	return items
}

func (ev *Evaluator) evalArgs(as []Expr, e *env) ([]Value, *ctrl) {
	out := make([]Value, len(as))
	n, nv := 0, 0
	defer func() { ev.pendingSlot -= n; ev.pendingVar -= nv }()
	for i, a := range as {
		v, c := ev.eval(a, e)
		if c != nil {
			return nil, c
		}
		out[i] = v
		if yieldsSlot(a) {
			ev.pendingSlot++
			n++
		}
		if yieldsVar(a) {
			ev.pendingVar++
			nv++
		}
	}
	return out, nil
}

func (ev *Evaluator) eval(x Expr, e *env) (Value, *ctrl) {
	if c := ev.tick(); c != nil {
		return nil, c
	}
	switch x := x.(type) {
	case IntLit:
		return IntV(x.V), nil
	case FloatLit:
		return FloatV(x.V), nil
	case BoolLit:
		return BoolV(x.V), nil
	case StrLit:
		return StrV(x.V), nil
	case NullLit:
		return NullV{}, nil
	case NoneLit:
		return OptV{}, nil
	case Paren:
		return ev.eval(x.X, e)
	case RangeLit:
		lo, c := ev.eval(x.Lo, e)
		if c != nil {
			return nil, c
		}
		hi, c := ev.eval(x.Hi, e)
		if c != nil {
			return nil, c
		}
		return RangeV{int64(lo.(IntV)), int64(hi.(IntV)), x.Incl}, nil
	case ListLit:
		vs, c := ev.evalArgs(x.Elems, e)
		if c != nil {
			return nil, c
		}
		return &ListV{Elems: vs}, nil
	case ObjLit:
		o := NewObj(false)
		for i, k := range x.Keys {
			v, c := ev.eval(x.Vals[i], e)
			if c != nil {
				return nil, c
			}
			o.Set(k, v)
		}
		return o, nil
	case AnyObjLit:
		return NewObj(true), nil
	case Ident:
		b := e.lookup(x.Name)
		if b == nil {
			return nil, ev.abort("unbound " + x.Name)
		}
		return b.v, nil
	case SingletonRef:
		b := ev.curMod.singletons[x.Name]
		if b == nil {
			return nil, ev.abort("unbound " + x.Name)
		}
		ev.feat("singleton-read")
		return b.v, nil
	case Prefix:
		v, c := ev.eval(x.X, e)
		if c != nil {
			return nil, c
		}
		switch x.Op {
		case "-":
			switch v := v.(type) {
			case IntV:
				return IntV(-int64(v)), nil
			case FloatV:
				return FloatV(-float64(v)), nil
			}
		case "!":
			switch v := v.(type) {
			case BoolV:
				return BoolV(!bool(v)), nil
			case IntV:
				return IntV(^int64(v)), nil
			}
		case "?":
			return OptV{v}, nil
		}
		return nil, ev.abort("prefix " + x.Op)
	case Infix:
		return ev.infix(x, e)
	case Assign:
		return ev.assign(x, e)
	case Call:
		return ev.call(x, e)
	case Index:
		bv, c := ev.eval(x.X, e)
		if c != nil {
			return nil, c
		}
		iv, c := ev.eval(x.I, e)
		if c != nil {
			return nil, c
		}
		return ev.index(bv, iv)
	case Member:
		bv, c := ev.eval(x.X, e)
		if c != nil {
			return nil, c
		}
		if o, ok := bv.(*ObjV); ok && !o.Any {
			if fv, ok := o.M[x.Name]; ok {
				ev.feat("field-read")
				return fv, nil
			}
		}
		if r, ok := bv.(RangeV); ok {
			switch x.Name {
			case "start":
				return IntV(r.Start), nil
			case "end":
				return IntV(r.End), nil
			}
		}
		return nil, ev.abort("member value " + x.Name)
	case Cast:
		v, c := ev.eval(x.X, e)
		if c != nil {
			return nil, c
		}
		ev.feat("cast")
		return ev.castTo(v, x.T, true)
	case *Block:
		ev.feat("block-expr")
		return ev.block(x, e)
	case *If:
		cv, c := ev.eval(x.Cond, e)
		if c != nil {
			return nil, c
		}
		ev.feat("if")
		if bool(cv.(BoolV)) {
			return ev.block(x.Then, e)
		}
		switch el := x.Else.(type) {
		case nil:
			return NullV{}, nil
		case *Block:
			return ev.block(el, e)
		case *If:
			return ev.eval(el, e)
		}
		return nil, ev.abort("else")
	case *Match:
		cv, c := ev.eval(x.X, e)
		if c != nil {
			return nil, c
		}
		ev.feat("match")
		var def *MatchArm
		for i := range x.Arms {
			a := &x.Arms[i]
			if len(a.Lits) == 0 {
				if def == nil {
					def = a
				}
				continue
			}
			for _, l := range a.Lits {
				lv, c := ev.eval(l, e)
				if c != nil {
					return nil, c
				}
				if Equal(cv, lv) {
					return ev.eval(a.Body, e)
				}
			}
		}
		if def != nil {
			ev.feat("match-default")
			return ev.eval(def.Body, e)
		}
		return NullV{}, nil
	case *Try:
		ev.feat("try")
		v, c := ev.block(x.Body, e)
		if c != nil && c.k == cThrow {
			ev.feat("catch")
			ce := e.child()
			eo := NewObj(false)
			eo.Set("message", StrV(c.msg))
			eo.Set("line", IntV(0))
			eo.Set("column", IntV(0))
			eo.Set("filename", StrV(""))
			ce.def(x.CatchVar, eo)
			return ev.block(x.Catch, ce)
		}
		return v, c
	case *FnLit:
		ev.feat("lambda")
		return &FnV{Lam: x, Mod: ev.curMod.m.Name}, nil
	case Spawn:
		return nil, ev.abort("spawn")
	}
	return nil, ev.abort(fmt.Sprintf("expr %T", x))
}

func powInt(b, e int64) int64 {
	r := int64(1)
	for e > 0 {
		if e&1 == 1 {
			r *= b
		}
		b *= b
		e >>= 1
	}
	return r
}

func (ev *Evaluator) infix(x Infix, e *env) (Value, *ctrl) {
	l, c := ev.eval(x.L, e)
	if c != nil {
		return nil, c
	}
	if x.Op == "&&" || x.Op == "||" {
		lb := bool(l.(BoolV))
		if (x.Op == "&&" && !lb) || (x.Op == "||" && lb) {
			ev.feat("short-circuit")
			return BoolV(lb), nil
		}
		r, c := ev.eval(x.R, e)
		if c != nil {
			return nil, c
		}
		return r, nil
	}
	if yieldsSlot(x.L) {
		ev.pendingSlot++
		defer func() { ev.pendingSlot-- }()
	}
	if yieldsVar(x.L) {
		ev.pendingVar++
		defer func() { ev.pendingVar-- }()
	}
	r, c := ev.eval(x.R, e)
	if c != nil {
		return nil, c
	}
	return ev.binop(x.Op, l, r)
}

func (ev *Evaluator) binop(op string, l, r Value) (Value, *ctrl) {
	switch op {
	case "==":
		return BoolV(Equal(l, r)), nil
	case "!=":
		return BoolV(!Equal(l, r)), nil
	}
	switch lv := l.(type) {
	case IntV:
		a, b := int64(lv), int64(r.(IntV))
		switch op {
		case "+":
			return IntV(a + b), nil
		case "-":
			return IntV(a - b), nil
		case "*":
			return IntV(a * b), nil
		case "/":
			if b == 0 {
				return nil, fatal("ValueError")
			}
			if b == -1 {
				return IntV(-a), nil
			}
			return IntV(a / b), nil
		case "%":
			if b == 0 {
				return nil, fatal("ValueError")
			}
			if b == -1 {
				return IntV(0), nil
			}
			return IntV(a % b), nil
		case "**":
			if b < 0 {
				return nil, ev.abort("negative exponent")
			}
			return IntV(powInt(a, b)), nil
		case "<<":
			if b < 0 {
				return nil, ev.abort("negative shift")
			}
			if b >= 64 {
				return IntV(0), nil
			}
			return IntV(a << uint(b)), nil
		case ">>":
			if b < 0 {
				return nil, ev.abort("negative shift")
			}
			if b >= 64 {
				b = 63
			}
			return IntV(a >> uint(b)), nil
		case "|":
			return IntV(a | b), nil
		case "&":
			return IntV(a & b), nil
		case "^":
			return IntV(a ^ b), nil
		case "<":
			return BoolV(a < b), nil
		case ">":
			return BoolV(a > b), nil
		case "<=":
			return BoolV(a <= b), nil
		case ">=":
			return BoolV(a >= b), nil
		}
	case FloatV:
		a, b := float64(lv), float64(r.(FloatV))
		switch op {
		case "+":
			return FloatV(a + b), nil
		case "-":
			return FloatV(a - b), nil
		case "*":
			return FloatV(a * b), nil
		case "/":
			if b == 0 {
				return nil, fatal("ValueError") // both backends: "Division by zero error" (since C04-013)
			}
			return FloatV(a / b), nil
		case "**":
			// defined here only where IEEE-754 fixes the result without a pow algorithm: small integral
			// exponents by repeated multiplication of exactly representable values, reciprocal, square root
			switch {
			case b == 0:
				return FloatV(1), nil
			case b == 1:
				return FloatV(a), nil
			case b == 2:
				return FloatV(a * a), nil
			case b == 3 && math.Abs(a) <= 1024 && a == math.Trunc(a*1024)/1024:
				return FloatV(a * a * a), nil
			case b == -1 && a != 0:
				return FloatV(1 / a), nil
			case b == 0.5 && a >= 0:
				return FloatV(math.Sqrt(a)), nil
			case b == 0.5 && a < 0 && !math.IsInf(a, 0):
				return FloatV(math.NaN()), nil // IEEE-754 pow: a finite negative base with a non-integral exponent
			}
			return nil, ev.abort("float pow")
		case "<":
			return BoolV(a < b), nil
		case ">":
			return BoolV(a > b), nil
		case "<=":
			return BoolV(a <= b), nil
		case ">=":
			return BoolV(a >= b), nil
		}
	case BoolV:
		a, b := bool(lv), bool(r.(BoolV))
		switch op {
		case "|":
			return BoolV(a || b), nil
		case "&":
			return BoolV(a && b), nil
		case "^":
			return BoolV(a != b), nil
		}
	case StrV:
		if op == "+" {
			if len(lv)+len(r.(StrV)) > 1<<16 {
				return nil, ev.abort("string too long for the model")
			}
			return StrV(string(lv) + string(r.(StrV))), nil
		}
	}
	return nil, ev.abort(fmt.Sprintf("binop %s on %s", op, l.Kind()))
}

// place is an assignable location.
type place struct {
	get func() Value
	set func(Value)
}

func (ev *Evaluator) place(x Expr, e *env) (*place, *ctrl) {
	switch x := x.(type) {
	case Paren:
		return ev.place(x.X, e)
	case Ident:
		b := e.lookup(x.Name)
		if b == nil {
			return nil, ev.abort("unbound " + x.Name)
		}
		return &place{func() Value { return b.v }, func(v Value) {
			if ev.pendingVar > 0 {
				ev.feat("hazard:var-operand")
			}
			b.v = v
		}}, nil
	case SingletonRef:
		b := ev.curMod.singletons[x.Name]
		if b == nil {
			return nil, ev.abort("unbound " + x.Name)
		}
		return &place{func() Value { return b.v }, func(v Value) { b.v = v }}, nil
	case Index:
		bv, c := ev.eval(x.X, e)
		if c != nil {
			return nil, c
		}
		iv, c := ev.eval(x.I, e)
		if c != nil {
			return nil, c
		}
		l, ok := bv.(*ListV)
		if !ok {
			return nil, ev.abort("index-assign on " + bv.Kind().String())
		}
		i, c := normIndex(int64(iv.(IntV)), len(l.Elems))
		if c != nil {
			return nil, c
		}
		ev.feat("elem-write")
		return &place{func() Value {
			if i >= len(l.Elems) {
				ev.stale = true
				return IntV(0)
			}
			return l.Elems[i]
		}, func(v Value) {
			ev.slotWrite()
			if i >= len(l.Elems) {
				ev.stale = true // the list shrank while the right-hand side was evaluated: outside the model
				return
			}
			l.Elems[i] = v
		}}, nil
	case Member:
		bv, c := ev.eval(x.X, e)
		if c != nil {
			return nil, c
		}
		o, ok := bv.(*ObjV)
		if !ok || o.Any {
			return nil, ev.abort("member-assign")
		}
		if _, ok := o.M[x.Name]; !ok {
			return nil, ev.abort("member-assign missing field")
		}
		ev.feat("field-write")
		return &place{func() Value { return o.M[x.Name] }, func(v Value) { ev.slotWrite(); o.M[x.Name] = v }}, nil
	}
	return nil, ev.abort(fmt.Sprintf("place %T", x))
}

func (ev *Evaluator) assign(x Assign, e *env) (Value, *ctrl) {
	// Program order: the target's sub-expressions, then the right-hand side.
	pl, c := ev.place(x.L, e)
	if c != nil {
		return nil, c
	}
	if x.Op == "=" {
		switch x.L.(type) {
		case Ident, SingletonRef:
		default:
			// the target slot is resolved before the right-hand side runs (see C01-009)
			ev.pendingSlot++
			defer func() { ev.pendingSlot-- }()
		}
		r, c := ev.eval(x.R, e)
		if c != nil {
			return nil, c
		}
		ev.pendingSlot-- // the store itself is not a hazard
		pl.set(r)
		ev.pendingSlot++
		if ev.stale {
			return nil, ev.abort("stale assignment target")
		}
		return NullV{}, nil
	}
	// `a op= b` is `a = a op b`: the target's value is read before b is evaluated.
	old := pl.get()
	switch x.L.(type) {
	case Ident, SingletonRef:
		ev.pendingVar++
		defer func() { ev.pendingVar-- }()
	default:
		ev.pendingSlot++
		defer func() { ev.pendingSlot-- }()
	}
	r, c := ev.eval(x.R, e)
	if c != nil {
		return nil, c
	}
	op := strings.TrimSuffix(x.Op, "=")
	nv, c := ev.binop(op, old, r)
	if c != nil {
		return nil, c
	}
	pl.set(nv)
	if ev.stale {
		return nil, ev.abort("stale assignment target")
	}
	return NullV{}, nil
}

func (ev *Evaluator) slotWrite() {
	if ev.pendingSlot > 0 {
		ev.feat("hazard:slot-operand")
	}
}

func normIndex(i int64, n int) (int, *ctrl) {
	if i < 0 {
		i += int64(n)
	}
	if i < 0 || i >= int64(n) {
		return 0, fatal("IndexOutOfBounds")
	}
	return int(i), nil
}

func (ev *Evaluator) index(bv, iv Value) (Value, *ctrl) {
	switch b := bv.(type) {
	case *ListV:
		i, c := normIndex(int64(iv.(IntV)), len(b.Elems))
		if c != nil {
			return nil, c
		}
		ev.feat("elem-read")
		return b.Elems[i], nil
	case StrV:
		// a string is a sequence of characters (what len() counts and for yields)
		rs := []rune(string(b))
		i, c := normIndex(int64(iv.(IntV)), len(rs))
		if c != nil {
			return nil, c
		}
		return StrV(string(rs[i])), nil
	}
	return nil, ev.abort("index on " + bv.Kind().String())
}

func isASCII(s string) bool {
	for i := 0; i < len(s); i++ {
		if s[i] >= 0x80 {
			return false
		}
	}
	return true
}

func (ev *Evaluator) call(x Call, e *env) (Value, *ctrl) {
	// builtin / member calls
	if id, ok := x.Fn.(Ident); ok && e.lookup(id.Name) == nil {
		args, c := ev.evalArgs(x.Args, e)
		if c != nil {
			return nil, c
		}
		return ev.builtin(id.Name, args)
	}
	if m, ok := x.Fn.(Member); ok {
		recv, c := ev.eval(m.X, e)
		if c != nil {
			return nil, c
		}
		isField := false
		if o, ok := recv.(*ObjV); ok && !o.Any {
			_, isField = o.M[m.Name]
		}
		if !isField {
			if yieldsSlot(m.X) {
				ev.pendingSlot++
			}
			args, c := ev.evalArgs(x.Args, e)
			if yieldsSlot(m.X) {
				ev.pendingSlot--
			}
			if c != nil {
				return nil, c
			}
			ev.feat("member-call")
			return ev.memberCall(recv, m.Name, args)
		}
	}
	fv, c := ev.eval(x.Fn, e)
	if c != nil {
		return nil, c
	}
	args, c := ev.evalArgs(x.Args, e)
	if c != nil {
		return nil, c
	}
	f, ok := fv.(*FnV)
	if !ok {
		return nil, ev.abort("call of non-function")
	}
	ev.feat("call")
	ms := ev.mods[f.Mod]
	if f.Lam != nil {
		// Non-capturing use only is generated in model mode; lexical capture modelled via global env.
		ev.feat("lambda-call")
		return ev.callBody(ms, ms.globals, f.Lam.Params, f.Lam.Body, args)
	}
	def := ms.m.Fn(f.Name)
	if def == nil {
		return nil, ev.abort("no fn " + f.Name)
	}
	return ev.callDef(ms, def, args)
}

func (ev *Evaluator) write(s string) { ev.Tr.Writes = append(ev.Tr.Writes, s) }

func (ev *Evaluator) builtin(name string, args []Value) (Value, *ctrl) {
	switch name {
	case "println", "print":
		parts := make([]string, len(args))
		for i, a := range args {
			parts[i] = Display(a)
		}
		s := strings.Join(parts, " ")
		if name == "println" {
			s += "\n"
		}
		ev.write(s)
		return NullV{}, nil
	case "throw":
		ev.feat("throw")
		return nil, throw(Display(args[0]))
	case "assert":
		if !bool(args[0].(BoolV)) {
			return nil, fatal("HostError")
		}
		return NullV{}, nil
	case "host_int", "host_float", "host_bool", "host_str", "host_list", "host_obj", "host_opt":
		ev.write(name + ":" + Display(args[0]) + "\n")
		return NullV{}, nil
	case "any_val":
		i := int(args[0].(IntV))
		if i < 0 || i >= len(ev.AnyVals) {
			return nil, ev.abort("any_val index")
		}
		return DeepCopy(ev.AnyVals[i]), nil
	}
	return nil, ev.abort("builtin " + name)
}

// castTo implements `as` / annotated let from any. explicit=true permits scalar conversions.
func (ev *Evaluator) castTo(v Value, t Type, explicit bool) (Value, *ctrl) {
	if Conforms(v, t) {
		return v, nil
	}
	if explicit {
		switch t.K {
		case KInt:
			switch v := v.(type) {
			case FloatV:
				f := float64(v)
				if math.IsNaN(f) || f >= 9.2e18 || f <= -9.2e18 {
					return nil, ev.abort("float->int out of range")
				}
				return IntV(int64(f)), nil
			case BoolV:
				if v {
					return IntV(1), nil
				}
				return IntV(0), nil
			}
		case KFloat:
			switch v := v.(type) {
			case IntV:
				return FloatV(float64(v)), nil
			case BoolV:
				if v {
					return FloatV(1), nil
				}
				return FloatV(0), nil
			}
		case KBool:
			switch v := v.(type) {
			case IntV:
				return BoolV(v != 0), nil
			case FloatV:
				return BoolV(v != 0), nil
			}
		}
	}
	return nil, ev.abort("cast outside model")
}

func (ev *Evaluator) memberCall(recv Value, name string, args []Value) (Value, *ctrl) {
	switch r := recv.(type) {
	case *ListV:
		switch name {
		case "push", "push_front", "pop", "pop_front", "concat", "sort", "insert", "remove":
			// restructuring a list while an element slot is pending (as operand or assignment target)
			ev.slotWrite()
			if len(r.Elems) > 1<<14 {
				return nil, ev.abort("list too long for the model")
			}
		}
		switch name {
		case "len":
			return IntV(len(r.Elems)), nil
		case "push":
			r.Elems = append(r.Elems, args[0])
			ev.feat("list-mutate")
			return NullV{}, nil
		case "push_front":
			r.Elems = append([]Value{args[0]}, r.Elems...)
			ev.feat("list-mutate")
			return NullV{}, nil
		case "pop":
			ev.feat("list-mutate")
			if len(r.Elems) == 0 {
				return OptV{}, nil
			}
			v := r.Elems[len(r.Elems)-1]
			r.Elems = r.Elems[:len(r.Elems)-1]
			return OptV{v}, nil
		case "pop_front":
			ev.feat("list-mutate")
			if len(r.Elems) == 0 {
				return OptV{}, nil
			}
			v := r.Elems[0]
			r.Elems = r.Elems[1:]
			return OptV{v}, nil
		case "last":
			if len(r.Elems) == 0 {
				return OptV{}, nil
			}
			return OptV{r.Elems[len(r.Elems)-1]}, nil
		case "contains":
			for _, el := range r.Elems {
				if Equal(el, args[0]) {
					return BoolV(true), nil
				}
			}
			return BoolV(false), nil
		case "concat":
			o := args[0].(*ListV)
			r.Elems = append(r.Elems, o.Elems...)
			ev.feat("list-mutate")
			return NullV{}, nil
		case "join":
			parts := make([]string, len(r.Elems))
			for i, el := range r.Elems {
				parts[i] = Display(el)
			}
			return StrV(strings.Join(parts, string(args[0].(StrV)))), nil
		case "to_string":
			return StrV(Display(r)), nil
		case "sort":
			ev.feat("list-mutate")
			if len(r.Elems) == 0 {
				return NullV{}, nil
			}
			switch r.Elems[0].(type) {
			case IntV:
				sort.SliceStable(r.Elems, func(i, j int) bool { return r.Elems[i].(IntV) < r.Elems[j].(IntV) })
			case FloatV:
				sort.SliceStable(r.Elems, func(i, j int) bool { return r.Elems[i].(FloatV) < r.Elems[j].(FloatV) })
			case StrV:
				sort.SliceStable(r.Elems, func(i, j int) bool { return r.Elems[i].(StrV) < r.Elems[j].(StrV) })
			default:
				return nil, ev.abort("sort of " + r.Elems[0].Kind().String())
			}
			return NullV{}, nil
		}
	case StrV:
		s := string(r)
		switch name {
		case "len":
			return IntV(utf8.RuneCountInString(s)), nil
		case "to_string":
			return r, nil
		case "contains":
			return BoolV(strings.Contains(s, string(args[0].(StrV)))), nil
		case "starts_with":
			return BoolV(strings.HasPrefix(s, string(args[0].(StrV)))), nil
		case "to_upper":
			if !isASCII(s) {
				return nil, ev.abort("non-ascii case mapping")
			}
			return StrV(strings.ToUpper(s)), nil
		case "to_lower":
			if !isASCII(s) {
				return nil, ev.abort("non-ascii case mapping")
			}
			return StrV(strings.ToLower(s)), nil
		case "repeat":
			n := int64(args[0].(IntV))
			if n < 0 || n > 1000 || int(n)*len(s) > 1<<16 {
				return nil, ev.abort("repeat count")
			}
			return StrV(strings.Repeat(s, int(n))), nil
		case "replace":
			return StrV(strings.ReplaceAll(s, string(args[0].(StrV)), string(args[1].(StrV)))), nil
		case "split":
			sep := string(args[0].(StrV))
			if sep == "" {
				return nil, ev.abort("split by empty separator")
			}
			l := &ListV{}
			for _, p := range strings.Split(s, sep) {
				l.Elems = append(l.Elems, StrV(p))
			}
			return l, nil
		case "parse_int":
			return nil, ev.abort("parse_int")
		}
	case IntV:
		switch name {
		case "to_string":
			return StrV(Display(r)), nil
		case "to_range":
			return RangeV{0, int64(r), false}, nil
		}
	case FloatV:
		switch name {
		case "to_string":
			return StrV(Display(r)), nil
		case "is_int":
			return BoolV(float64(r) == math.Trunc(float64(r))), nil
		case "trunc":
			f := math.Trunc(float64(r))
			if math.Abs(f) >= 9.2e18 {
				return nil, ev.abort("trunc out of range")
			}
			return IntV(int64(f)), nil
		}
	case BoolV:
		if name == "to_string" {
			return StrV(Display(r)), nil
		}
	case RangeV:
		switch name {
		case "start":
			return IntV(r.Start), nil
		case "end":
			return IntV(r.End), nil
		}
	case OptV:
		switch name {
		case "is_some":
			return BoolV(r.Inner != nil), nil
		case "is_none":
			return BoolV(r.Inner == nil), nil
		case "unwrap_or":
			if r.Inner == nil {
				return args[0], nil
			}
			return r.Inner, nil
		case "unwrap":
			if r.Inner == nil {
				return nil, ev.abort("unwrap of none") // class differs between backends; outside model
			}
			return r.Inner, nil
		case "expect":
			if r.Inner == nil {
				return nil, ev.abort("expect of none")
			}
			return r.Inner, nil
		case "to_string":
			return StrV(Display(r)), nil
		}
	case *ObjV:
		switch name {
		case "keys":
			l := &ListV{}
			for _, k := range r.SortedKeys() {
				l.Elems = append(l.Elems, StrV(k))
			}
			return l, nil
		}
		if r.Any {
			switch name {
			case "set":
				r.Set(string(args[0].(StrV)), args[1])
				return NullV{}, nil
			}
		}
	}
	return nil, ev.abort("member " + recv.Kind().String() + "." + name)
}
