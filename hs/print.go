package hs

import (
	"fmt"
	"strconv"
	"strings"
)

// Binding powers, written from the operator table in property C07.
var InfixPrec = map[string]int{
	"||": 3, "&&": 5, "|": 7, "^": 9, "&": 11, "==": 13, "!=": 13,
	"<": 15, ">": 15, "<=": 15, ">=": 15, "<<": 17, ">>": 17,
	"+": 19, "-": 19, "*": 21, "/": 21, "%": 21, "**": 26,
}

const (
	precAssign  = 1
	precAs      = 23
	precPow     = 26
	precRange   = 27
	precPrefix  = 29
	precPostfix = 30
	precAtom    = 100
)

type Printer struct {
	FullParens bool // parenthesise every compound operand
	b          strings.Builder
	ind        int
	// layout variety (a pure function of the tree): block-like expressions (if / match / try / block) that
	// stand where no binding power is required are written bare most of the time and in parentheses every
	// third time; the last expression statement of a block is written without its ';' every second time
	// when that does not change the block's type (it becomes the block's trailing expression).
	nBare, nTail int
}

func blockLike(e Expr) bool {
	switch e.(type) {
	case *Block, *If, *Match, *Try:
		return true
	}
	return false
}

func PrintProgramModule(m *Module) string {
	p := &Printer{}
	p.module(m)
	return p.b.String()
}

func PrintExpr(e Expr) string {
	p := &Printer{}
	p.expr(e, 0)
	return p.b.String()
}

func PrintExprFull(e Expr) string {
	p := &Printer{FullParens: true}
	p.expr(e, 0)
	return p.b.String()
}

func PrintBlock(b *Block) string {
	p := &Printer{}
	p.block(b)
	return p.b.String()
}

func (p *Printer) w(s string)  { p.b.WriteString(s) }
func (p *Printer) nl()         { p.b.WriteString("\n" + strings.Repeat("    ", p.ind)) }
func (p *Printer) wf(f string, a ...any) { fmt.Fprintf(&p.b, f, a...) }

func (p *Printer) module(m *Module) {
	for _, im := range m.Imports {
		p.w("import ")
		if len(im.Items) == 1 {
			p.w(importItemSrc(im.Items[0]))
		} else {
			parts := make([]string, len(im.Items))
			for i, it := range im.Items {
				parts[i] = importItemSrc(it)
			}
			p.w("{ " + strings.Join(parts, ", ") + " }")
		}
		p.w(" from " + im.From + ";\n")
	}
	for _, s := range m.Singletons {
		p.wf("%s = %s;\n", s.Name, s.T.Src())
	}
	for _, t := range m.Types {
		if t.Pub {
			p.w("pub ")
		}
		p.wf("type %s = %s;\n", t.Name, t.T.Structural())
	}
	for _, g := range m.Globals {
		if g.Pub {
			p.w("pub ")
		}
		p.w("let " + g.Name)
		if g.Annot != nil {
			p.w(": " + g.Annot.Src())
		}
		p.w(" = ")
		p.expr(g.X, 0)
		p.w(";\n")
	}
	if m.Raw != "" {
		p.w(m.Raw)
		p.w("\n")
	}
	for i := range m.Fns {
		p.fn(&m.Fns[i])
		p.w("\n")
	}
}

func importItemSrc(it ImportItem) string {
	if it.Kind != "" {
		return it.Kind + " " + it.Name
	}
	return it.Name
}

func paramsSrc(ps []Param) string {
	parts := make([]string, len(ps))
	for i, q := range ps {
		if q.Singleton != "" {
			parts[i] = q.Name + ": " + q.Singleton
		} else {
			parts[i] = q.Name + ": " + q.T.Src()
		}
	}
	return strings.Join(parts, ", ")
}

func (p *Printer) fn(f *FnDef) {
	if f.Pub {
		p.w("pub ")
	}
	if f.Event {
		p.w("event ")
	}
	p.wf("fn %s(%s)", f.Name, paramsSrc(f.Params))
	if f.Ret.K != KNull {
		p.w(" -> " + f.Ret.Src())
	}
	p.w(" ")
	p.block(f.Body)
	p.w("\n")
}

func (p *Printer) block(b *Block) {
	if len(b.Stmts) == 0 && b.Tail == nil {
		p.w("{}")
		return
	}
	p.w("{")
	p.ind++
	for i, s := range b.Stmts {
		p.nl()
		if es, ok := s.(ExprStmt); ok && i == len(b.Stmts)-1 && b.Tail == nil && !es.Semi && !p.FullParens && tailable(es.X, b.T) {
			if p.nTail++; p.nTail%2 == 0 {
				p.expr(es.X, 0) // no ';': the statement is the block's trailing expression now
				continue
			}
		}
		p.stmt(s)
	}
	if b.Tail != nil {
		p.nl()
		p.expr(b.Tail, 0)
	}
	p.ind--
	p.nl()
	p.w("}")
}

// tailable: dropping the ';' behind this last statement keeps the block's type (the block yields null or
// diverges, and so does the expression).
func tailable(e Expr, blockT Type) bool {
	if blockT.K != KNull && blockT.K != KNever {
		return false
	}
	t := e.Type()
	if t.K != KNull && t.K != KNever {
		return false
	}
	switch x := e.(type) {
	case *If, *Match, *Try, *Block:
		return true
	case Call:
		_, isIdent := x.Fn.(Ident)
		return isIdent
	}
	return false
}

func (p *Printer) stmt(s Stmt) {
	switch s := s.(type) {
	case Let:
		p.w("let " + s.Name)
		if s.Annot != nil {
			p.w(": " + s.Annot.Src())
		}
		p.w(" = ")
		p.expr(s.X, 0)
		p.w(";")
	case Return:
		if s.X == nil {
			p.w("return;")
		} else {
			p.w("return ")
			p.expr(s.X, 0)
			p.w(";")
		}
	case Break:
		p.w("break;")
	case Continue:
		p.w("continue;")
	case Loop:
		p.w("loop ")
		p.block(s.Body)
	case While:
		p.w("while ")
		p.expr(s.Cond, 1)
		p.w(" ")
		p.block(s.Body)
	case For:
		p.w("for " + s.Var + " in ")
		p.expr(s.Iter, 1)
		p.w(" ")
		p.block(s.Body)
	case ExprStmt:
		p.expr(s.X, 0)
		p.w(";")
	case TriggerStmt:
		p.wf("trigger %s %s %s(", s.Callback, s.Conn, s.Trigger)
		p.args(s.Args)
		p.w(");")
	case TypeDef:
		p.wf("type %s = %s;", s.Name, s.T.Structural())
	case RawStmt:
		p.w(s.Src)
	default:
		panic(fmt.Sprintf("print stmt %T", s))
	}
}

func (p *Printer) args(as []Expr) {
	for i, a := range as {
		if i > 0 {
			p.w(", ")
		}
		p.expr(a, 0)
	}
}

// FloatSrc renders a finite non-negative float as a literal `digits.digits` (no exponent syntax).
func FloatSrc(f float64) string {
	s := strconv.FormatFloat(f, 'f', -1, 64)
	if !strings.Contains(s, ".") {
		s += ".0"
	}
	return s
}

func exprPrec(e Expr) int {
	switch e := e.(type) {
	case Infix:
		return InfixPrec[e.Op]
	case Assign:
		return precAssign
	case Cast:
		return precAs
	case Prefix:
		return precPrefix
	case RangeLit:
		return precRange
	case IntLit:
		if e.V < 0 {
			return precPrefix
		}
	case FloatLit:
		if e.V < 0 {
			return precPrefix
		}
	case *Block, *If, *Match, *Try:
		return -1 // always parenthesised as an operand
	case *FnLit, Spawn:
		return -1
	case RawExpr:
		return -1
	}
	return precAtom
}

// expr prints e so that it can stand where binding power > min is required.
func (p *Printer) expr(e Expr, min int) {
	pr := exprPrec(e)
	need := pr < min || (pr == -1 && min > 0)
	if min == 0 && blockLike(e) && !p.FullParens {
		p.nBare++
		need = p.nBare%3 == 0
	}
	if p.FullParens && min > 0 && pr != precAtom {
		need = true
	}
	if need {
		p.w("(")
		p.exprInner(e)
		p.w(")")
		return
	}
	p.exprInner(e)
}

func (p *Printer) exprInner(e Expr) {
	switch e := e.(type) {
	case IntLit:
		if e.V == -9223372036854775808 {
			p.w("(-9223372036854775807 - 1)")
		} else {
			p.w(strconv.FormatInt(e.V, 10))
		}
	case FloatLit:
		if e.V < 0 {
			p.w("-" + FloatSrc(-e.V))
		} else {
			p.w(FloatSrc(e.V))
		}
	case BoolLit:
		p.w(strconv.FormatBool(e.V))
	case StrLit:
		p.w(QuoteStr(e.V))
	case NullLit:
		p.w("null")
	case NoneLit:
		p.w("none")
	case RangeLit:
		p.expr(e.Lo, precRange+1)
		if e.Incl {
			p.w("..=")
		} else {
			p.w("..")
		}
		p.expr(e.Hi, precRange+1)
	case ListLit:
		p.w("[")
		p.args(e.Elems)
		p.w("]")
	case ObjLit:
		p.w("new { ")
		for i, k := range e.Keys {
			if i > 0 {
				p.w(", ")
			}
			if isIdent(k) {
				p.w(k)
			} else {
				p.w(QuoteStr(k))
			}
			p.w(": ")
			p.expr(e.Vals[i], 0)
		}
		p.w(" }")
	case AnyObjLit:
		p.w("new { ? }")
	case Ident:
		p.w(e.Name)
	case SingletonRef:
		p.w(e.Name)
	case Prefix:
		p.w(e.Op)
		// `--x` would still lex as two minus tokens, but keep it readable
		if q, ok := e.X.(Prefix); ok && q.Op == e.Op && e.Op == "-" {
			p.w(" ")
		}
		p.expr(e.X, precPrefix)
	case Infix:
		pr := InfixPrec[e.Op]
		if e.Op == "**" {
			p.expr(e.L, pr+1)
			p.w(" ** ")
			p.expr(e.R, pr)
		} else {
			p.expr(e.L, pr)
			p.w(" " + e.Op + " ")
			p.expr(e.R, pr+1)
		}
	case Assign:
		p.expr(e.L, precPostfix)
		p.w(" " + e.Op + " ")
		p.expr(e.R, precAssign+1)
	case Call:
		p.expr(e.Fn, precPostfix)
		p.w("(")
		p.args(e.Args)
		p.w(")")
	case Index:
		p.expr(e.X, precPostfix)
		p.w("[")
		p.expr(e.I, 0)
		p.w("]")
	case Member:
		p.expr(e.X, precPostfix)
		p.w("." + e.Name)
	case Cast:
		p.expr(e.X, precAs)
		p.w(" as " + e.T.Src())
	case *Block:
		p.block(e)
	case *If:
		p.w("if ")
		p.expr(e.Cond, 1)
		p.w(" ")
		p.block(e.Then)
		switch el := e.Else.(type) {
		case nil:
		case *If:
			p.w(" else ")
			p.exprInner(el)
		case *Block:
			p.w(" else ")
			p.block(el)
		default:
			panic("bad else")
		}
	case *Match:
		p.w("match ")
		p.expr(e.X, 1)
		p.w(" {")
		p.ind++
		for _, a := range e.Arms {
			p.nl()
			if len(a.Lits) == 0 {
				p.w("_")
			}
			for i, l := range a.Lits {
				if i > 0 {
					p.w(" | ")
				}
				p.exprInner(l)
			}
			p.w(" => ")
			p.expr(a.Body, 0)
			p.w(",")
		}
		p.ind--
		p.nl()
		p.w("}")
	case *Try:
		p.w("try ")
		p.block(e.Body)
		p.w(" catch " + e.CatchVar + " ")
		p.block(e.Catch)
	case *FnLit:
		p.wf("fn(%s)", paramsSrc(e.Params))
		if e.Ret.K != KNull {
			p.w(" -> " + e.Ret.Src())
		}
		p.w(" ")
		p.block(e.Body)
	case Spawn:
		p.w("spawn " + e.Fn + "(")
		p.args(e.Args)
		p.w(")")
	case Paren:
		p.w("(")
		p.exprInner(e.X)
		p.w(")")
	case RawExpr:
		p.w(e.Src)
	default:
		panic(fmt.Sprintf("print expr %T", e))
	}
}
