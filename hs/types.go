// Package hs is the harness's own model of the Homescript core language: types, values, AST,
// printer and a definitional evaluator. It never imports the repository.
package hs

import (
	"sort"
	"strings"
)

type Kind int

const (
	KInt Kind = iota
	KFloat
	KBool
	KStr
	KNull
	KRange
	KList
	KObj
	KAnyObj
	KOpt
	KFn
	KAny
	KNever
)

func (k Kind) String() string {
	return [...]string{"int", "float", "bool", "str", "null", "range", "list", "obj", "anyobj", "opt", "fn", "any", "never"}[k]
}

type Field struct {
	Name string
	T    Type
}

// Type is a structural type. Alias, when set, is the name used when printing source text.
type Type struct {
	K      Kind
	Elem   *Type   `json:",omitempty"` // list element / option inner
	Fields []Field `json:",omitempty"` // object fields (source order)
	Params []Type  `json:",omitempty"`
	Ret    *Type   `json:",omitempty"`
	Alias  string  `json:",omitempty"`
}

var (
	TInt    = Type{K: KInt}
	TFloat  = Type{K: KFloat}
	TBool   = Type{K: KBool}
	TStr    = Type{K: KStr}
	TNull   = Type{K: KNull}
	TRange  = Type{K: KRange}
	TAnyObj = Type{K: KAnyObj}
	TAny    = Type{K: KAny}
	TNever  = Type{K: KNever}
)

func TList(e Type) Type { return Type{K: KList, Elem: &e} }
func TOpt(e Type) Type  { return Type{K: KOpt, Elem: &e} }
func TObj(fs ...Field) Type {
	return Type{K: KObj, Fields: fs}
}
func TFn(ret Type, params ...Type) Type { return Type{K: KFn, Params: params, Ret: &ret} }

func (t Type) IsScalar() bool {
	switch t.K {
	case KInt, KFloat, KBool, KStr, KNull, KRange:
		return true
	}
	return false
}

func (t Type) FieldType(name string) (Type, bool) {
	for _, f := range t.Fields {
		if f.Name == name {
			return f.T, true
		}
	}
	return Type{}, false
}

// Equal is structural equality (field order irrelevant, aliases ignored).
func (t Type) Equal(o Type) bool {
	if t.K != o.K {
		return false
	}
	switch t.K {
	case KList, KOpt:
		return t.Elem.Equal(*o.Elem)
	case KObj:
		if len(t.Fields) != len(o.Fields) {
			return false
		}
		for _, f := range t.Fields {
			ot, ok := o.FieldType(f.Name)
			if !ok || !f.T.Equal(ot) {
				return false
			}
		}
		return true
	case KFn:
		if len(t.Params) != len(o.Params) || !t.Ret.Equal(*o.Ret) {
			return false
		}
		for i := range t.Params {
			if !t.Params[i].Equal(o.Params[i]) {
				return false
			}
		}
		return true
	}
	return true
}

func isIdent(s string) bool {
	if s == "" {
		return false
	}
	for i, r := range s {
		if r == '_' || (r >= 'a' && r <= 'z') || (r >= 'A' && r <= 'Z') || (i > 0 && r >= '0' && r <= '9') {
			continue
		}
		return false
	}
	return !Keywords[s]
}

// Src renders the type in source syntax (aliases used where present).
func (t Type) Src() string {
	if t.Alias != "" {
		return t.Alias
	}
	return t.Structural()
}

// Structural renders without aliases at the top level (nested aliases kept).
func (t Type) Structural() string {
	switch t.K {
	case KList:
		return "[" + t.Elem.Src() + "]"
	case KOpt:
		return "?" + t.Elem.Src()
	case KObj:
		parts := make([]string, len(t.Fields))
		for i, f := range t.Fields {
			n := f.Name
			if !isIdent(n) {
				n = QuoteStr(n)
			}
			parts[i] = n + ": " + f.T.Src()
		}
		return "{ " + strings.Join(parts, ", ") + " }"
	case KAnyObj:
		return "{ ? }"
	case KFn:
		ps := make([]string, len(t.Params))
		for i, p := range t.Params {
			ps[i] = "p" + itoa(i) + ": " + p.Src()
		}
		r := ""
		if t.Ret.K != KNull {
			r = " -> " + t.Ret.Src()
		}
		return "fn(" + strings.Join(ps, ", ") + ")" + r
	}
	return t.K.String()
}

// Canon is a canonical string independent of alias and field order (for comparisons/hashes).
func (t Type) Canon() string {
	switch t.K {
	case KList:
		return "[" + t.Elem.Canon() + "]"
	case KOpt:
		return "?" + t.Elem.Canon()
	case KObj:
		parts := make([]string, len(t.Fields))
		for i, f := range t.Fields {
			parts[i] = f.Name + ":" + f.T.Canon()
		}
		sort.Strings(parts)
		return "{" + strings.Join(parts, ",") + "}"
	case KFn:
		ps := make([]string, len(t.Params))
		for i, p := range t.Params {
			ps[i] = p.Canon()
		}
		return "fn(" + strings.Join(ps, ",") + ")->" + t.Ret.Canon()
	}
	return t.K.String()
}

func itoa(i int) string {
	if i == 0 {
		return "0"
	}
	neg := i < 0
	if neg {
		i = -i
	}
	var b []byte
	for i > 0 {
		b = append([]byte{byte('0' + i%10)}, b...)
		i /= 10
	}
	if neg {
		b = append([]byte{'-'}, b...)
	}
	return string(b)
}

var Keywords = map[string]bool{}

func init() {
	for _, k := range strings.Fields("true false on off fn if else match try catch for while loop break continue return let in as type pub import from null none new spawn event trigger at templ impl with _") {
		Keywords[k] = true
	}
}
