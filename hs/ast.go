package hs

// AST of the model language. Every expression carries its static type T (assigned by the
// generator, which is the harness's independent statement of the typing rules).

type Expr interface{ Type() Type }

type (
	IntLit   struct{ V int64 }
	FloatLit struct{ V float64 }
	BoolLit  struct{ V bool }
	StrLit   struct{ V string }
	NullLit  struct{}
	NoneLit  struct{ T Type } // T = option type
	RangeLit struct {
		Lo, Hi Expr
		Incl   bool
	}
	ListLit struct {
		Elems []Expr
		T     Type // list type
	}
	ObjLit struct {
		Keys []string
		Vals []Expr
		T    Type
	}
	AnyObjLit struct{} // new { ? }
	Ident     struct {
		Name string
		T    Type
	}
	SingletonRef struct { // $Name
		Name string
		T    Type
	}
	Prefix struct {
		Op string // "-" "!" "?"
		X  Expr
		T  Type
	}
	Infix struct {
		Op   string
		L, R Expr
		T    Type
	}
	Assign struct {
		Op   string // "=" "+=" ...
		L, R Expr   // L: Ident | Index | Member | SingletonRef-based
	}
	Call struct {
		Fn   Expr
		Args []Expr
		T    Type
	}
	Index struct {
		X, I Expr
		T    Type
	}
	Member struct {
		X    Expr
		Name string
		T    Type
	}
	Cast struct {
		X Expr
		T Type
	}
	Block struct {
		Stmts []Stmt
		Tail  Expr // may be nil
		T     Type
	}
	If struct {
		Cond Expr
		Then *Block
		Else Expr // nil | *Block | *If
		T    Type
	}
	MatchArm struct {
		Lits    []Expr // literal patterns; empty = default `_`
		Body    Expr
	}
	Match struct {
		X    Expr
		Arms []MatchArm
		T    Type
	}
	Try struct {
		Body     *Block
		CatchVar string
		Catch    *Block
		T        Type
	}
	FnLit struct {
		Params []Param
		Ret    Type
		Body   *Block
	}
	Spawn struct {
		Fn   string
		Args []Expr
	}
	Paren struct{ X Expr } // explicit grouping kept by the printer
	RawExpr struct {       // verbatim source fragment (tables); evaluator cannot run it
		Src string
		T   Type
	}
)

func (IntLit) Type() Type      { return TInt }
func (FloatLit) Type() Type    { return TFloat }
func (BoolLit) Type() Type     { return TBool }
func (StrLit) Type() Type      { return TStr }
func (NullLit) Type() Type     { return TNull }
func (e NoneLit) Type() Type   { return e.T }
func (RangeLit) Type() Type    { return TRange }
func (e ListLit) Type() Type   { return e.T }
func (e ObjLit) Type() Type    { return e.T }
func (AnyObjLit) Type() Type   { return TAnyObj }
func (e Ident) Type() Type     { return e.T }
func (e SingletonRef) Type() Type { return e.T }
func (e Prefix) Type() Type    { return e.T }
func (e Infix) Type() Type     { return e.T }
func (Assign) Type() Type      { return TNull }
func (e Call) Type() Type      { return e.T }
func (e Index) Type() Type     { return e.T }
func (e Member) Type() Type    { return e.T }
func (e Cast) Type() Type      { return e.T }
func (e *Block) Type() Type    { return e.T }
func (e *If) Type() Type       { return e.T }
func (e *Match) Type() Type    { return e.T }
func (e *Try) Type() Type      { return e.T }
func (e *FnLit) Type() Type {
	ps := make([]Type, len(e.Params))
	for i, p := range e.Params {
		ps[i] = p.T
	}
	return TFn(e.Ret, ps...)
}
func (Spawn) Type() Type     { return TNull }
func (e Paren) Type() Type   { return e.X.Type() }
func (e RawExpr) Type() Type { return e.T }

type Param struct {
	Name      string
	T         Type
	Singleton string // "$Name" if this parameter extracts a singleton
}

type Stmt interface{ isStmt() }

type (
	Let struct {
		Name  string
		Annot *Type // optional annotation
		X     Expr
	}
	Return   struct{ X Expr } // X may be nil
	Break    struct{}
	Continue struct{}
	Loop     struct{ Body *Block }
	While    struct {
		Cond Expr
		Body *Block
	}
	For struct {
		Var  string
		Iter Expr
		Body *Block
	}
	ExprStmt struct {
		X    Expr
		Semi bool // print a ';' even where optional
	}
	TriggerStmt struct {
		Callback string
		Conn     string // "at" | "on"
		Trigger  string
		Args     []Expr
	}
	TypeDef struct {
		Name string
		T    Type
		Pub  bool
	}
	RawStmt struct{ Src string }
)

func (Let) isStmt()         {}
func (Return) isStmt()      {}
func (Break) isStmt()       {}
func (Continue) isStmt()    {}
func (Loop) isStmt()        {}
func (While) isStmt()       {}
func (For) isStmt()         {}
func (ExprStmt) isStmt()    {}
func (TriggerStmt) isStmt() {}
func (TypeDef) isStmt()     {}
func (RawStmt) isStmt()     {}

type FnDef struct {
	Name   string
	Params []Param
	Ret    Type
	Body   *Block
	Pub    bool
	Event  bool
}

type Global struct {
	Name  string
	Annot *Type
	X     Expr
	Pub   bool
}

type Singleton struct {
	Name string // with leading '$'
	T    Type
}

type Import struct {
	Items []ImportItem
	From  string
}
type ImportItem struct {
	Kind string // "" | "type" | "templ" | "trigger"
	Name string
}

type Module struct {
	Name       string
	Imports    []Import
	Singletons []Singleton
	Types      []TypeDef
	Globals    []Global
	Fns        []FnDef
	Raw        string // verbatim extra top-level text (impl blocks etc.)
}

type Program struct {
	Entry   string
	Modules []*Module
}

func (p *Program) Mod(name string) *Module {
	for _, m := range p.Modules {
		if m.Name == name {
			return m
		}
	}
	return nil
}
func (m *Module) Fn(name string) *FnDef {
	for i := range m.Fns {
		if m.Fns[i].Name == name {
			return &m.Fns[i]
		}
	}
	return nil
}
